#!/bin/bash
# seedmatrix.sh [ids...]: applies every confirmed seeded change in /verif/seeded to /repo in turn, runs the quick check of
# its property (and, when that does not report it, the checks listed as alternates), reverts, and records the outcome
# in seeded/<id>/meta.json (detected_by).  /repo must be clean; nothing else may use /repo while this runs.
cd /verif
R=${VERIF_REPO:-/repo}    # the tree the seeds are applied to and the checks run against (a scratch worktree while /repo is busy)
export VERIF_REPO=$R
declare -A ALT=( [C03d]="C12" [C03e]="C12" [C11f]="C12" [C07f]="C10" [C02h]="C02" [C07h]="C04" [C01f]="C02" [C08f]="C02" [C03f]="C02" [C03b]="C12" [C07d]="C10" [C01a]="C02" [C02b]="C01" [C02a]="C13" [C07b]="C03" [C12a]="C12" [C10b]="" [C06b]="" [C07j]="C04" [C04l]="C07" [C02m]="C07" [C02l]="C01" [C16l]="C01" [C07l]="C04" [C18m]="C17" )
IDS=${@:-$(ls seeded)}
for id in $IDS; do
  P=${id:0:3}
  [ -f seeded/$id/patch.diff ] || continue
  if [ -n "$(git -C $R status --porcelain)" ]; then echo "/repo not clean"; exit 2; fi
  if ! git -C $R apply /verif/seeded/$id/patch.diff 2>/dev/null; then echo "$id: patch does not apply"; python3 tools/seedmeta.py $id "patch no longer applies to the current HEAD"; continue; fi
  res=""
  for c in $P ${ALT[$id]}; do
    out=$(timeout 1800 ./check $c quick 2>&1); rc=$?
    if [ $rc -eq 1 ] && echo "$out" | grep -q "^VIOLATION property=$c"; then res="detected by ./check $c quick: $(echo "$out" | grep '^violation:' | head -1 | cut -c1-160)"; break; fi
    res="$res[$c quick exit=$rc] "
  done
  git -C $R checkout -- . ; git -C $R clean -fdq -- internal cmd >/dev/null 2>&1
  case "$res" in detected*) ;; *) res="NOT detected: $res";; esac
  echo "$id: $res" | cut -c1-260
  python3 tools/seedmeta.py $id "$res"
done
