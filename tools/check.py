#!/usr/bin/env python3
"""Driver: tools/check.py <PROPERTY-ID> [quick|thorough] [--replay <path>]

Runs the model-based check of one property against /repo's current working tree.
exit 0: held on everything explored; exit 1: VIOLATION line printed; exit 2: inconclusive."""
import importlib
import os
import sys
import traceback

sys.path.insert(0, os.path.dirname(os.path.abspath(__file__)))
import vlib


def main():
    if len(sys.argv) < 2:
        print(__doc__)
        return 2
    pid = sys.argv[1]
    tier = os.environ.get("VERIF_TIER", "quick")
    replay = None
    rest = sys.argv[2:]
    while rest:
        a = rest.pop(0)
        if a in ("quick", "thorough"):
            tier = a
        elif a == "--replay":
            replay = rest.pop(0)
    os.chdir(vlib.VERIF)
    try:
        mod = importlib.import_module("props." + pid)
    except ImportError as e:
        print("no check for", pid, e)
        return 2
    try:
        return mod.run(tier, replay)
    except vlib.Inconclusive as e:
        print("INCONCLUSIVE property=%s: %s" % (pid, e))
        return 2
    except Exception:
        traceback.print_exc()
        print("INCONCLUSIVE property=%s: internal error of the check" % pid)
        return 2


if __name__ == "__main__":
    sys.exit(main())
