#!/bin/bash
# confirm_wave7.sh <PROP> <variant> <agent-out-dir> <pkgdir>
# Seventh wave delivers out/{patch.diff,demo_test.go,note.txt}; <pkgdir> is the package directory the demo is copied into.
# Confirms in a fresh scratch worktree of /repo HEAD: builds with the change, existing suite passes with it,
# the demonstration fails with it and passes without it. Stores /verif/seeded/<PROP><variant>/ and removes the worktree.
set -u
P=$1; V=$2; SRC=$3; PKG=$4
DST=/verif/seeded/$P$V
WT=$(mktemp -d /tmp/seedwt-XXXXXX)
export GOFLAGS=-mod=mod GOPROXY=off GOSUMDB=off GOTOOLCHAIN=local
PIN=$(git -C /repo rev-parse --short HEAD)
git -C /repo worktree add --detach "$WT/wt" HEAD >/dev/null 2>&1 || { echo "worktree failed"; exit 2; }
cd "$WT/wt"
DEMOF=w7_${P}${V}_demo_test.go
RUN=$(grep -o 'func Test[A-Za-z0-9_]*' "$SRC/demo_test.go" | sed 's/func //' | paste -sd'|')
demo() { cp "$SRC/demo_test.go" "$PKG/$DEMOF"; timeout 600 go test -vet=off -count=1 -run "^($RUN)\$" "./$PKG/"; rc=$?; rm -f "$PKG/$DEMOF"; return $rc; }
b=fail; t=fail
git apply "$SRC/patch.diff" || echo "patch does not apply"
go build ./... >/dev/null 2>&1 && b=ok
go test -vet=off -count=1 ./... >"$WT/tests.log" 2>&1 && t=ok
demo >"$WT/with.log" 2>&1; w=$?
git checkout -- . ; git clean -fdq
demo >"$WT/without.log" 2>&1; wo=$?
echo "$P$V build=$b tests=$t demo_with_change_rc=$w demo_without_change_rc=$wo"
tail -5 "$WT/with.log"
if [ $b = ok ] && [ $t = ok ] && [ $w -ne 0 ] && [ $wo -eq 0 ]; then
  mkdir -p "$DST/demo"
  cp "$SRC/patch.diff" "$DST/patch.diff"; cp "$SRC/demo_test.go" "$DST/demo/$DEMOF"; cp "$SRC/note.txt" "$DST/note.txt"
  python3 - "$DST" "$P" "$PIN" "$PKG" "$DEMOF" "$RUN" "$w" "$wo" <<'EOF'
import json,sys
dst,p,pin,pkg,demof,run,w,wo=sys.argv[1:]
note=open(dst+"/note.txt").read().strip()
json.dump({"property":p,"title":note.splitlines()[0][:200],"what":note,"needs":"see note.txt",
 "demo_cmd":f"cp demo/{demof} <worktree>/{pkg}/ && go test -vet=off -count=1 -run '^({run})$' ./{pkg}/",
 "confirmed":{"base_commit":pin,"build_with_change":"ok","existing_tests_with_change":"ok",
   "demo_rc_with_change":int(w),"demo_rc_without_change":int(wo),"how":"tools/confirm_wave7.sh in a fresh scratch worktree of base_commit"},
 "detected_by":"not run yet"}, open(dst+"/meta.json","w"), indent=1)
EOF
  echo "stored $DST"
else
  echo "NOT confirmed; see logs:"; tail -15 "$WT/tests.log" | grep -v "^ok\|no test files" | head; tail -5 "$WT/without.log"
fi
cd /; git -C /repo worktree remove --force "$WT/wt"; rm -rf "$WT"
