"""Common machinery for the dtail TLA+ model-based checks.

Every check (tools/props/<ID>.py) uses this library for:
  * running TLC on a module of /verif/spec inside a scratch directory,
  * building + running a Go harness overlaid into /repo packages (go test -overlay),
  * the verdict policy (VIOLATION / KNOWN-FINDING / model divergence / inconclusive),
  * writing /verif/evidence/<ID>.json.

Exit codes of a check: 0 property held on everything explored, 1 violation, 2 inconclusive.
"""
import json
import os
import re
import shutil
import subprocess
import sys
import tempfile
import time
import hashlib

VERIF = os.path.dirname(os.path.dirname(os.path.abspath(__file__)))
REPO = os.environ.get("VERIF_REPO", "/repo")
SPEC = os.path.join(VERIF, "spec")
HARNESS = os.path.join(VERIF, "harness")
# evidence and replay files describe runs against /repo itself; a run against a scratch worktree (VERIF_REPO, used for the
# seeded changes) must not overwrite them
EVIDENCE = os.path.join(VERIF, "evidence") if REPO == "/repo" else os.path.join("/tmp", "verif-scratch-evidence")
REPLAY = os.path.join(VERIF, "replay") if REPO == "/repo" else os.path.join("/tmp", "verif-scratch-replay")
KNOWN = os.path.join(VERIF, "known_findings.json")
NCPU = os.cpu_count() or 4

GOENV = {
    "GOFLAGS": "-mod=mod",
    "GOPROXY": "off",
    "GOSUMDB": "off",
    "GOTOOLCHAIN": "local",
}


class Inconclusive(Exception):
    pass


def log(*a):
    print(*a, flush=True)


def seed():
    try:
        return int(os.environ.get("VERIF_SEED", "1"))
    except ValueError:
        return 1


class Scratch:
    """A scratch directory outside /repo and /verif, removed on exit."""

    def __init__(self, tag):
        base = os.environ.get("VERIF_SCRATCH_BASE") or tempfile.gettempdir()
        self.path = tempfile.mkdtemp(prefix="dtailverif-%s-" % tag, dir=base)

    def __enter__(self):
        return self.path

    def __exit__(self, *a):
        if os.environ.get("VERIF_KEEP_SCRATCH"):
            log("scratch kept:", self.path)
            return
        shutil.rmtree(self.path, ignore_errors=True)


# --------------------------------------------------------------------------- TLC

TLC_JAR = "/opt/veriftools/tla/tla2tools.jar:/opt/veriftools/tla/CommunityModules-deps.jar"


class TLCResult:
    def __init__(self):
        self.ok = False
        self.generated = 0
        self.distinct = 0
        self.violated = None      # name of violated invariant / property, or "deadlock"
        self.error = None         # other TLC error text
        self.out = ""
        self.wall = 0.0
        self.printed = []         # lines printed by PrintT
        self.depth = 0
        self.coverage = {}

    def as_dict(self):
        return {"ok": self.ok, "generated": self.generated, "distinct": self.distinct,
                "violated": self.violated, "error": self.error, "wall_s": round(self.wall, 2)}


def tlc(workdir, module, cfg=None, workers=None, timeout=600, extra=None, files=None,
        java_opts=None, simulate=None, deadlock=False, heap=None):
    """Run TLC for spec/<module>.tla in `workdir` (a scratch dir; all of spec/ is copied there).

    files: dict name -> text of additional files to write into workdir before the run.
    Returns a TLCResult; raises Inconclusive on timeout or a crash of TLC itself."""
    marker = os.path.join(workdir, ".spec-copied")
    if not os.path.exists(marker) and os.path.isdir(SPEC):   # once per scratch dir (parallel runs share it)
        for root, dirs, fs in os.walk(SPEC):
            for f in fs:
                if f.endswith((".tla", ".cfg")):
                    shutil.copy(os.path.join(root, f), os.path.join(workdir, f))
        open(marker, "w").close()
    for name, text in (files or {}).items():
        with open(os.path.join(workdir, name), "w") as fh:
            fh.write(text)
    cfg = cfg or (module + ".cfg")
    md = tempfile.mkdtemp(prefix="md-", dir=workdir)
    jtmp = os.path.join(workdir, "jtmp")          # TLC unpacks its standard modules into java.io.tmpdir: keep that in the scratch dir
    os.makedirs(jtmp, exist_ok=True)
    cmd = ["java", "-XX:+UseParallelGC", "-Djava.io.tmpdir=" + jtmp]
    if heap:
        cmd.append("-Xmx" + heap)
    cmd += ["-Xss64m"]
    cmd += (java_opts or [])
    cmd += ["-cp", TLC_JAR, "tlc2.TLC", "-metadir", md, "-config", cfg]
    if workers is None:
        workers = NCPU
    cmd += ["-workers", str(workers)]
    if not deadlock:
        cmd += ["-deadlock"]   # -deadlock switches deadlock checking OFF
    if simulate:
        cmd += ["-simulate", simulate]
    cmd += (extra or [])
    cmd += [module + ".tla"]
    t0 = time.time()
    try:
        p = subprocess.run(cmd, cwd=workdir, stdout=subprocess.PIPE, stderr=subprocess.STDOUT,
                           timeout=timeout, text=True, errors="replace")
    except subprocess.TimeoutExpired as e:
        subprocess.run(["pkill", "-f", md], check=False)
        raise Inconclusive("TLC timeout after %ss on %s/%s" % (timeout, module, cfg))
    finally:
        shutil.rmtree(md, ignore_errors=True)
    r = TLCResult()
    r.wall = time.time() - t0
    r.out = p.stdout
    m = None
    for m in re.finditer(r"(\d+) states generated, (\d+) distinct states found", p.stdout):
        pass
    if m:
        r.generated, r.distinct = int(m.group(1)), int(m.group(2))
    m = re.search(r"The depth of the complete state graph search is (\d+)", p.stdout)
    if m:
        r.depth = int(m.group(1))
    m = re.search(r"Invariant (\S+) is violated", p.stdout)
    if m:
        r.violated = m.group(1)
    elif re.search(r"Temporal propert(y \S+ was|ies were) violated", p.stdout):
        r.violated = "temporal"
    elif re.search(r"Action property (\S+) is violated", p.stdout):
        r.violated = re.search(r"Action property (\S+) is violated", p.stdout).group(1)
    elif "Deadlock reached" in p.stdout:
        r.violated = "deadlock"
    elif re.search(r"The postcondition (\S+) ?is violated|Evaluating the postcondition .* failed|postcondition.*violated", p.stdout, re.I):
        r.violated = "postcondition"
    if "Model checking completed. No error has been found." in p.stdout or \
       (simulate and r.violated is None and p.returncode == 0):
        r.ok = True
    if not r.ok and r.violated is None:
        # assumption failures, parse errors, evaluation errors, java crash
        tail = "\n".join(p.stdout.splitlines()[-40:])
        r.error = tail
    return r


def tlc_must_pass(workdir, module, cfg=None, **kw):
    r = tlc(workdir, module, cfg, **kw)
    if not r.ok:
        raise Inconclusive("TLC did not accept %s/%s: violated=%s error=%s" %
                           (module, cfg or module + ".cfg", r.violated, (r.error or "")[-1500:]))
    return r


def printed_set(out, tag):
    """Parses <<"TAG", {1, 2, ...}>> printed by TLC (possibly wrapped over several lines) into a set of ints."""
    m = re.search(r'<<\s*"%s",\s*\{([^}]*)\}\s*>>' % tag, out, re.S)
    if not m:
        raise Inconclusive("TLC did not print the %s report" % tag)
    return {int(x) for x in m.group(1).replace("\n", " ").split(",") if x.strip()}


def read_ndjson(path):
    out = []
    with open(path) as fh:
        for line in fh:
            line = line.strip()
            if line:
                out.append(json.loads(line))
    return out


def write_ndjson(path, recs):
    with open(path, "w") as fh:
        for r in recs:
            fh.write(json.dumps(r, separators=(",", ":")) + "\n")


# --------------------------------------------------------------------------- Go harness

def goenv(extra=None):
    env = dict(os.environ)
    env.update(GOENV)
    env.pop("DTAIL_INTEGRATION_TEST_RUN_MODE", None)
    if extra:
        env.update({k: str(v) for k, v in extra.items()})
    return env


def overlay_json(workdir, mapping):
    """mapping: {repo-relative target path: harness file path or (path, package-name)}.
    Harness sources carry 'package PKG' which is rewritten to the target package name."""
    replace = {}
    gen = os.path.join(workdir, "overlay-src")
    os.makedirs(gen, exist_ok=True)
    for target, src in mapping.items():
        pkg = None
        if isinstance(src, tuple):
            src, pkg = src
        text = open(src if os.path.isabs(src) else os.path.join(HARNESS, src)).read()
        if pkg:
            text = re.sub(r"(?m)^package PKG\b", "package " + pkg, text, count=1)
        dst = os.path.join(gen, hashlib.sha1(target.encode()).hexdigest()[:10] + "_" + os.path.basename(target))
        with open(dst, "w") as fh:
            fh.write(text)
        replace[os.path.join(REPO, target)] = dst
    path = os.path.join(workdir, "overlay.json")
    with open(path, "w") as fh:
        json.dump({"Replace": replace}, fh)
    return path


def go_test(workdir, pkg, mapping, run, env=None, timeout=900, tags="verif", args=None):
    """go test of one /repo package with harness files overlaid. Returns (rc, output).
    A build failure raises Inconclusive (a tree on which the harness does not compile is never a violation)."""
    ov = overlay_json(workdir, mapping)
    exe = os.path.join(workdir, "harness.test")
    cmd = ["go", "test", "-c", "-o", exe, "-vet=off", "-tags", tags, "-overlay", ov, pkg]
    p = subprocess.run(cmd, cwd=REPO, env=goenv(), stdout=subprocess.PIPE, stderr=subprocess.STDOUT,
                       text=True, errors="replace", timeout=600)
    if p.returncode != 0 or not os.path.exists(exe):
        raise Inconclusive("harness build failed for %s:\n%s" % (pkg, p.stdout[-3000:]))
    cmd = [exe, "-test.run", run, "-test.count=1", "-test.v", "-test.timeout", "%ds" % timeout] + (args or [])
    rundir = os.path.join(workdir, "run")
    os.makedirs(rundir, exist_ok=True)
    try:
        # stdin must be a character device: serverless sessions read a piped stdin instead of the file
        p = subprocess.run(cmd, cwd=rundir, env=goenv(env), stdout=subprocess.PIPE, stderr=subprocess.STDOUT,
                           stdin=open("/dev/null"), text=True, errors="replace", timeout=timeout + 30)
    except subprocess.TimeoutExpired:
        raise Inconclusive("harness timeout (%ss) %s %s" % (timeout, pkg, run))
    return p.returncode, p.stdout


def died_in_dtail(out):
    """index of the Go runtime's death message ('panic:' / 'fatal error:') when the harness process died inside dtail's own
    code (a frame of github.com/mimecast/dtail/internal or /cmd follows that is not a harness file), else -1"""
    import re
    for mark in ("panic:", "fatal error:"):
        i = out.find(mark)
        if i < 0:
            continue
        frames = re.findall(r"\n\t(\S+\.go):\d+", out[i:i + 8000])
        own = [f for f in frames if "/internal/" in f or "/cmd/" in f]
        if own and not re.search(r"/(c\d\d[a-z_0-9]*|vcommon)_test\.go$", own[0]):
            return i
    return -1


def go_build(workdir, pkg, out, mapping=None, tags="verif", timeout=600):
    cmd = ["go", "build", "-tags", tags, "-o", out]
    if mapping:
        cmd += ["-overlay", overlay_json(workdir, mapping)]
    cmd.append(pkg)
    p = subprocess.run(cmd, cwd=REPO, env=goenv(), stdout=subprocess.PIPE, stderr=subprocess.STDOUT,
                       text=True, errors="replace", timeout=timeout)
    if p.returncode != 0:
        raise Inconclusive("build failed for %s:\n%s" % (pkg, p.stdout[-3000:]))
    return out


# --------------------------------------------------------------------------- verdicts / evidence

def known_findings(pid):
    if not os.path.exists(KNOWN):
        return []
    data = json.load(open(KNOWN))
    return [f for f in data.get("findings", []) if f.get("property") == pid and f.get("status") == "open"]


class Verdict:
    """Collects violations and known findings of one check run and produces the exit code."""

    def __init__(self, pid, tier):
        self.pid = pid
        self.tier = tier
        self.violations = []      # dicts
        self.known_hit = {}       # finding id -> count
        self.divergence = []
        self.notes = []
        self.t0 = time.time()
        self.kf = {f["id"]: f for f in known_findings(pid)}

    def violation(self, what, case):
        self.violations.append({"what": what, "case": case})

    def known(self, fid, detail=None):
        """Report a reproduced deviation. Returns True if it is a listed open finding,
        otherwise records it as a violation."""
        if fid in self.kf:
            self.known_hit[fid] = self.known_hit.get(fid, 0) + 1
            return True
        self.violation("unlisted deviation " + fid, detail)
        return False

    def diverge(self, what):
        if len(self.divergence) < 20:
            self.divergence.append(what)

    def finish(self, coverage, assumptions, level="model_checking"):
        os.makedirs(EVIDENCE, exist_ok=True)
        for fid, n in sorted(self.known_hit.items()):
            f = self.kf[fid]
            log("KNOWN-FINDING: property=%s %s [%s; reproduced %d time(s) in this run]" %
                (self.pid, f["what"], fid, n))
        replay_path = None
        if self.violations:
            d = os.path.join(REPLAY, self.pid)
            os.makedirs(d, exist_ok=True)
            blob = json.dumps(self.violations[:50], indent=1, sort_keys=True, default=str)
            h = hashlib.sha1(blob.encode()).hexdigest()[:12]
            replay_path = os.path.join(d, h + ".json")
            with open(replay_path, "w") as fh:
                fh.write(blob)
        coverage = dict(coverage)
        coverage.setdefault("known_findings_reproduced", self.known_hit)
        coverage.setdefault("model_divergence", self.divergence)
        ev = {
            "property_id": self.pid,
            "tier": self.tier,
            "seed": seed(),
            "level": level,
            "coverage": coverage,
            "assumptions": assumptions,
            "wall_s": round(time.time() - self.t0, 2),
            "violations": len(self.violations),
        }
        with open(os.path.join(EVIDENCE, self.pid + ".json"), "w") as fh:
            json.dump(ev, fh, indent=1, default=str)
        if self.violations:
            for v in self.violations[:5]:
                log("violation:", v["what"], json.dumps(v["case"], default=str)[:600])
            log("VIOLATION property=%s replay=%s" % (self.pid, replay_path))
            return 1
        log("OK property=%s tier=%s wall=%.1fs" % (self.pid, self.tier, time.time() - self.t0))
        return 0
