#!/bin/bash
# confirm_seed.sh <PROP> <variant>   e.g. confirm_seed.sh C13 a
# Confirms a seeded change delivered by a sub-agent under /tmp/mut/<PROP>/out/<variant>/ in a fresh scratch
# worktree of the pinned commit: (1) with the change the tree builds and the existing suite passes,
# (2) the demonstration fails with the change, (3) the demonstration passes without it.
# Copies patch, demo and a meta.json into /verif/seeded/<PROP><variant>/ and removes the worktree.
set -u
P=$1; V=$2
MUT=${MUT:-/tmp/mut}
SRC=$MUT/$P/out/$V
DST=/verif/seeded/$P$V
WT=$(mktemp -d /tmp/seedwt-XXXXXX)
export GOFLAGS=-mod=mod GOPROXY=off GOSUMDB=off GOTOOLCHAIN=local
PIN=${PIN:-9bcd8b1}   # wave 2: MUT=/tmp/mut2 PIN=<the /repo HEAD the agents worked on>
git -C /repo worktree add --detach "$WT/wt" $PIN >/dev/null 2>&1 || { echo "worktree failed"; exit 2; }
cd "$WT/wt"
DEMO=$(python3 -c "import json;print(json.load(open('$SRC/meta.json'))['demo_cmd'])" | sed "s#$MUT/$P/wt#$WT/wt#g; s#$MUT/$P/out/$V#$SRC#g")
res_build=fail; res_tests=fail; res_with=unknown; res_without=unknown
git apply "$SRC/patch.diff" || { echo "patch does not apply"; }
if go build ./... >/dev/null 2>&1; then res_build=ok; fi
if go test -vet=off -count=1 ./... >"$WT/tests.log" 2>&1; then res_tests=ok; fi
( cd "$WT/wt" && timeout 600 bash -c "$DEMO" ) >"$WT/with.log" 2>&1; rc_with=$?
git checkout -- . ; git clean -fdq
( cd "$WT/wt" && timeout 600 bash -c "$DEMO" ) >"$WT/without.log" 2>&1; rc_without=$?
git checkout -- . ; git clean -fdq
echo "$P$V build=$res_build tests=$res_tests demo_with_change_rc=$rc_with demo_without_change_rc=$rc_without"
mkdir -p "$DST"
cp "$SRC/patch.diff" "$DST/patch.orig.diff"
[ -f "$DST/patch.diff" ] || cp "$SRC/patch.diff" "$DST/patch.diff"
rm -rf "$DST/demo"; cp -r "$SRC/demo" "$DST/demo"
PIN=$PIN python3 - "$SRC/meta.json" "$DST/meta.json" "$res_build" "$res_tests" "$rc_with" "$rc_without" "$P" <<'EOF'
import json,sys,os
src,dst,b,t,w,wo,p=sys.argv[1:]
pin=os.environ.get("PIN","9bcd8b1")
m=json.load(open(src))
old=json.load(open(dst)) if os.path.exists(dst) else {}
out={"property":p,"title":m.get("title"),"files":m.get("files"),"what":m.get("what"),"needs":m.get("needs"),
     "why_tests_pass":m.get("why_tests_pass"),"demo_cmd":m.get("demo_cmd"),
     "confirmed":{"base_commit":pin,"build_with_change":b,"existing_tests_with_change":t,
                  "demo_rc_with_change":int(w),"demo_rc_without_change":int(wo),
                  "how":"tools/confirm_seed.sh in a fresh scratch worktree of base_commit"},
     "patch.diff":"applies to the current /repo HEAD (ported where hooks/fix commits touched the same lines); patch.orig.diff applies to base_commit",
     "detected_by":old.get("detected_by","(not yet run)")}
json.dump(out,open(dst,"w"),indent=1)
EOF
tail -3 "$WT/with.log" | cut -c1-300
cd /; git -C /repo worktree remove --force "$WT/wt"; rm -rf "$WT"
