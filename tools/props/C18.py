"""C18 - server discovery yields each wanted server exactly once.

spec/Discovery.tla: filter -> dedup -> remove-by-index shuffle with a nondeterministic index; TLC checks
EachWantedOnce / ShuffleConserves for every list of the bounded alphabet and every choice sequence.
(A) DiscoveryCases writes every (list, filter, Ref answer); the real discovery.ServerList() is run on the
concretised list in comma / file form.  (B) the real code runs on random lists of up to 3000 entries and TLC
evaluates the Ref operator on the (input, output) records.  End to end: a real retrying client against local
listeners; the contacted addresses are validated by TLC against the Ref addresses of the distinct entries."""
import json
import os

import vlib
from vlib import log

PID = "C18"


def throttle_trace(wd, V, thr):
    """Throttle.tla exhaustively (small constants, both client kinds), then the harness trace against ThrottleTrace."""
    states = 0
    for retry in ("TRUE", "FALSE"):
        cfg = ("SPECIFICATION Spec\nCONSTANTS\n Servers <- MCServers\n Live <- MCLive\n K = 2\n Retry = %s\n KF_FailKeepsSlot = FALSE\n"
               "INVARIANTS AtMostK SlotsMatch\nPROPERTIES EveryLiveContacted ReconnectKeeps NoRetryOnce\nCHECK_DEADLOCK FALSE\n" % retry)
        r = vlib.tlc(wd, "MC_Throttle", "thr%s.cfg" % retry, files={"thr%s.cfg" % retry: cfg}, timeout=600)
        if not r.ok:
            raise vlib.Inconclusive("TLC Throttle: %s %s" % (r.violated, (r.error or "")[-1200:]))
        states += r.distinct
    log("TLC Throttle (5 servers, 3 answering, K = 2, with and without retry): %d distinct states; AtMostK, SlotsMatch, EveryLiveContacted, ReconnectKeeps, NoRetryOnce hold" % states)
    trace, k, nfail, n = thr["trace"], thr["capacity"], thr["failing"], thr["servers"]
    # the observation itself: connections between accept and up/fail at any time
    inflight, peak = {}, 0
    for e in trace:
        if e["ev"] == "accept":
            inflight[e["s"]] = inflight.get(e["s"], 0) + 1
        else:
            inflight[e["s"]] = inflight.get(e["s"], 0) - 1
        peak = max(peak, sum(v for v in inflight.values() if v > 0))
    thr["peak_establishing"] = peak
    if peak > k:
        V.violation("%d connections were being established at the same time, the throttle has %d slots" % (peak, k),
                    {"capacity": k, "peak": peak, "trace": trace[:200]})
    if thr.get("redialled", 0) < thr.get("dropped", 0):
        V.violation("%d servers ended their sessions, the retrying client connected again to %d of them within 10 s" % (thr["dropped"], thr["redialled"]),
                    {k: v for k, v in thr.items() if k != "trace"})
    elif thr.get("held", 0) < thr.get("redialled", 0):
        V.violation("the retrying client connected again to %d servers whose sessions had ended, 1.6 s later only %d of the new sessions are still up" %
                    (thr["redialled"], thr["held"]), {k: v for k, v in thr.items() if k != "trace"})
    mod = ("---- MODULE GThr ----\nEXTENDS ThrottleTrace\nGServers == 1..%d\nGLive == %d..%d\n====\n" % (nfail + n, nfail + 1, nfail + n))
    def validate(name, tr):
        vlib.write_ndjson(os.path.join(wd, name), tr)
        cfg = ("SPECIFICATION TSpec\nCONSTANTS\n Servers <- GServers\n Live <- GLive\n K = %d\n Retry = TRUE\n KF_FailKeepsSlot = FALSE\n"
               " TraceFile = \"%s\"\nINVARIANT Report\nCHECK_DEADLOCK FALSE\n" % (k, name))
        r = vlib.tlc(wd, "GThr", name + ".cfg", files={"GThr.tla": mod, name + ".cfg": cfg}, timeout=600)
        if not r.ok:
            raise vlib.Inconclusive("TLC ThrottleTrace: %s %s" % (r.violated, (r.error or "")[-1200:]))
        acc = [l for l in r.out.splitlines() if l.startswith('<<"ACCEPTED"')]
        return (acc[0] if acc else None), r.distinct
    acc, st = validate("thr_trace.ndjson", trace)
    if acc is None and peak <= k:
        V.diverge("the throttle trace is not a behaviour of ThrottleTrace although never more than K connections were being established")
    if acc is not None and "TRUE" not in acc and thr["contacted"] == thr["servers"]:
        V.diverge("ThrottleTrace: not every answering server is contacted in the model's final state (%s) although the harness saw all" % acc)
    # binding self-test: K+1 accepts in a row must be rejected
    bad = [{"ev": "accept", "s": i + 1} for i in range(k + 1)]
    acc2, _ = validate("thr_bad.ndjson", bad)
    if acc2 is not None:
        raise vlib.Inconclusive("ThrottleTrace accepts a trace with K+1 connections being established at once: the trace spec does not bind")
    live1 = nfail + 1
    acc3, _ = validate("thr_bad2.ndjson", [{"ev": "accept", "s": live1}, {"ev": "up", "s": live1}, {"ev": "accept", "s": live1}])
    if acc3 is not None:
        raise vlib.Inconclusive("ThrottleTrace accepts a second connection to a server whose session is up: the trace spec does not bind")
    log("throttle trace: %d events, peak %d of %d slots, accepted by ThrottleTrace: %s; corrupted trace rejected" % (len(trace), peak, k, acc))
    return states + st


def run(tier, replay):
    V = vlib.Verdict(PID, tier)
    maxlen = 4 if tier == "quick" else 6
    with vlib.Scratch(PID) as wd:
        pool = '{"a", "b", "c", "a:22", ""}'
        mc = ('---- MODULE GDisc ----\nEXTENDS DiscoveryCases\nMCPool == %s\n'
              'MCFilters == {MCPool, {"a", "a:22"}, {"b", "c", ""}, {}}\n====\n' % pool)
        cfg = ("SPECIFICATION Spec\nCONSTANTS\n  Pool <- MCPool\n  MaxLen = %d\n  Filters <- MCFilters\n"
               "INVARIANTS EachWantedOnce ShuffleConserves\n" % maxlen)
        # (B) + e2e records first, so that one TLC run validates everything
        ov = {"internal/discovery/vcommon_test.go": ("common/vcommon_test.go", "discovery"),
              "internal/discovery/c18_test.go": "discovery/c18_test.go"}
        rec = os.path.join(wd, "c18_records.ndjson")
        nrec = 30 if tier == "quick" else 1500
        rc, out = vlib.go_test(wd, "./internal/discovery", ov, "TestC18Records",
                               env={"VERIF_OUT": rec, "VERIF_N": nrec, "VERIF_SEED": vlib.seed()}, timeout=600)
        if rc != 0 or not os.path.exists(rec):
            raise vlib.Inconclusive("records harness failed\n" + out[-2000:])
        ov2 = {"internal/clients/vcommon_test.go": ("common/vcommon_test.go", "clients"),
               "internal/clients/c18_contact_test.go": "clients/c18_contact_test.go"}
        cpath = os.path.join(wd, "contact.json")
        rc, out = vlib.go_test(wd, "./internal/clients", ov2, "TestC18Contact", env={"VERIF_OUT": cpath}, timeout=120)
        if rc != 0 or not os.path.exists(cpath):
            raise vlib.Inconclusive("contact harness failed\n" + out[-2000:])
        contact = json.load(open(cpath))
        # the connection throttle limits how many connections are being ESTABLISHED at once, not how many servers are contacted
        ov3 = dict(ov2)
        ov3["internal/clients/c18_throttle_test.go"] = "clients/c18_throttle_test.go"
        tpath = os.path.join(wd, "throttle.json")
        rc, out = vlib.go_test(wd, "./internal/clients", ov3, "TestC18Throttle", env={"VERIF_OUT": tpath}, timeout=180)
        if rc != 0 or not os.path.exists(tpath):
            raise vlib.Inconclusive("throttle harness failed\n" + out[-2000:])
        thr = json.load(open(tpath))
        if thr["contacted"] != thr["servers"]:
            V.violation("with long-lived sessions and more servers (%d) than throttle slots (%d) only %d servers were contacted" %
                        (thr["servers"], thr["capacity"], thr["contacted"]), dict(thr, trace=thr["trace"][:120]))
        # ... and the recorded trace of that run is a behaviour of spec/Throttle.tla (never more than K between accept and up/fail)
        thr_states = throttle_trace(wd, V, thr)
        # ports are renamed 1..n (wanted listeners), n+1 = default-port listener
        wanted = list(range(1, len(contact["wanted"]) + 2))
        round1, allc = [], []
        for i, w in enumerate(contact["wanted"] + [contact["default_port_entry"]]):
            round1 += [i + 1] * w["first_round"]
            allc += [i + 1] * w["total"]
        vlib.write_ndjson(os.path.join(wd, "c18_contact.ndjson"),
                          [{"wanted": wanted, "round1": round1, "all": allc, "uninvited": contact["uninvited"]}])
        r = vlib.tlc(wd, "GDisc", "GDisc.cfg", files={"GDisc.tla": mc, "GDisc.cfg": cfg}, timeout=3000)
        if not r.ok:
            raise vlib.Inconclusive("TLC: %s %s" % (r.violated, (r.error or "")[-1500:]))
        log("TLC Discovery MaxLen=%d: %d distinct states, invariants hold" % (maxlen, r.distinct))
        ids = vlib.printed_set(r.out, "BADRECORDS")
        bad_contacts = "{}" if not vlib.printed_set(r.out, "BADCONTACTS") else "{1}"
        records = vlib.read_ndjson(rec)
        if ids:
            for rr in records:
                if rr["id"] in ids:
                    V.violation("random list: output is not the distinct matching entries, each once (Ref evaluated by TLC)",
                                {"id": rr["id"], "input_len": len(rr["input"]), "distinct": len(set(rr["input"])),
                                 "output_len": len(rr["output"]), "input_head": rr["input"][:20], "output_head": rr["output"][:20]})
        if "{}" not in bad_contacts:
            V.violation("the client contacted a different set of addresses than the distinct entries denote", contact)
        lows = [w for w in contact["wanted"] + [contact["default_port_entry"]] if w["total"] < 2]
        if lows and "{}" in bad_contacts:
            V.violation("a listed server was not contacted again after its connection dropped (reconnect lost it)", contact)
        mx = max(w["total"] for w in contact["wanted"])
        if contact["default_port_entry"]["total"] > mx + 1:
            V.violation("the default-port address was contacted more often than any listed entry (reconnect invents addresses)", contact)
        if contact["connections"] != len(wanted):
            V.violation("number of connections differs from the number of distinct entries", contact)
        # (A) replay of every enumerated case
        cases = vlib.read_ndjson(os.path.join(wd, "c18_cases.ndjson"))
        cj = os.path.join(wd, "cases.json")
        json.dump(cases, open(cj, "w"))
        oj = os.path.join(wd, "out.json")
        rc, out = vlib.go_test(wd, "./internal/discovery", ov, "TestC18Replay",
                               env={"VERIF_CASES": cj, "VERIF_OUT": oj, "VERIF_SEED": vlib.seed()}, timeout=900)
        if rc != 0 or not os.path.exists(oj):
            raise vlib.Inconclusive("replay harness failed\n" + out[-2000:])
        res = json.load(open(oj))
        for b in res["bad"] or []:
            V.violation("ServerList() differs from the distinct matching entries (%s form)" % b["form"], b)
        nontriv = sum(1 for c in cases if len(set(c["input"])) < len(c["input"]) or len(c["wanted"]) < len(set(c["input"])))
        cov = {"states": r.distinct + thr_states, "transitions": r.generated,
               "throttle": {k: v for k, v in thr.items() if k != "trace"}, "throttle_trace_events": len(thr["trace"]),
               "traces_validated_against_impl": len(records) + 2,
               "evaluations": res["evaluations"] + len(records) + 1,
               "distinct_nontrivial": nontriv,
               "rule": "cases = all lists up to MaxLen over 5 abstract entries x 4 filters (TLC); non-trivial = the list has a "
                       "duplicate or the filter removes an entry; records = random lists of 1..3000 entries",
               "exhaustive": True,
               "samples": [cases[len(cases) // 2], {"contact": contact}, {"record_id": records[0]["id"], "input_len": len(records[0]["input"])}],
               "maxlen": maxlen}
        return V.finish(cov, ["the regex filter is reachable only through a discovery module; it is exercised through the white-box constructor",
                              "regexp matching is trusted (the filter is modelled as the set of entries it matches)",
                              "contact test: listeners on 127.0.0.1 that drop the connection; about 5 s of wall time"])
