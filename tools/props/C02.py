"""C02 - every selected line is delivered before the session closes, at any pace.

spec/Session.tla: client sender, command counter, one reader per file blocking on the full queue, flush / .syn / .ack,
Go's select in Read(), bounded transport and output pipe; TLC checks AllDelivered, InOrder and <>Terminated under
per-action weak fairness for the strict scope (one command, several files).  (A) complete behaviours from TLC -simulate
(SessionSched) give the order of the controllable steps; the harness - the transport between a real server session and
a real client handler - replays them at three paces (fast, quiescent, stall beyond the flush window) with file sizes
around the 100-entry queues; every selected line must arrive exactly once, in order, and the session must end."""
import json
import os
import random
import re
from concurrent.futures import ThreadPoolExecutor

import e2e
import vlib
from vlib import log

PID = "C02"
OV = {"internal/clients/connectors/vcommon_test.go": ("common/vcommon_test.go", "connectors"),
      "internal/clients/connectors/c01_test.go": "connectors/c01_test.go",
      "internal/clients/connectors/c02_test.go": "connectors/c02_test.go"}


def session_cfg(cmds, kf, spec="Spec", invs="AllDelivered InOrder", props="EventuallyEnds", q=2, kf_timeout=False):
    s = ("SPECIFICATION %s\nCONSTANTS\n Cmds <- %s\n QCap = %d\n MCap = 2\n WCap = 2\n OutCap = 2\n KF_FlushGiveUp = %s\n KF_TimeoutFromFlush = %s\n" %
         (spec, cmds, q, "TRUE" if kf else "FALSE", "TRUE" if kf_timeout else "FALSE"))
    if invs:
        s += "INVARIANTS %s\n" % invs
    if props:
        s += "PROPERTY %s\n" % props
    return s


def has_late_command(trace, ncmds):
    """the command counter reached 0 before every command of the session had been received by the server"""
    recv = 0
    for e in trace:
        if e["ev"] == "cmd.recv":
            recv += 1
        if e["ev"] == "cmd.done" and e.get("v") == "0":
            return recv < ncmds
    return False


def has_flush_giveup(trace):
    return any(e["ev"] == "flush.done" and e.get("v") not in (None, "0") for e in trace)


def trace_events(trace):
    """projection of the recorded vhook trace onto the events of spec/SessionTrace.tla; the begin of a Read() call is
    merged with its recorded outcome (same goroutine, same call)"""
    out = []
    pending = None
    for e in trace:
        ev = e["ev"]
        if ev == "read":
            pending = {"ev": "read", "c": 0, "f": 0, "v": 0}
            out.append(pending)
        elif ev == "read.case":
            if e.get("v") == "line":
                m = re.match(r"c(\d+)f(\d+)\.log", e.get("w", ""))
                if m and pending is not None:
                    pending.update({"c": int(m.group(1)), "f": int(m.group(2)), "v": 1})
                    out.append({"ev": "line", "c": int(m.group(1)), "f": int(m.group(2)), "v": 0})
            elif e.get("w", "").startswith(".syn") and pending is not None:
                pending["v"] = 2
                out.append({"ev": "syn", "c": 0, "f": 0, "v": 0})
            pending = None
        elif ev in ("send", "cmd.recv", "cmd.done"):
            out.append({"ev": ev, "c": 0, "f": 0, "v": int(e.get("v", 0) or 0)})
        elif ev == "flush.done":
            out.append({"ev": "flush", "c": 0, "f": 0, "v": int(e.get("v", 0) or 0)})
    return out


def validate_trace(wd, case, res):
    """TLC checks the recorded trace of one session against SessionTrace (Session's actions, silent reader steps).
    Returns (accepted, ref_ok_along_trace, distinct_states)."""
    exp = [[res["expected"]["c%df%d.log" % (k + 1, fi + 1)] for fi in range(len(fs))] for k, fs in enumerate(case["cmds"])]
    cm = "<<" + ", ".join("<<" + ", ".join(str(n) for n in fs) + ">>" for fs in exp) + ">>"
    name = "GST%d" % case["id"]
    vlib.write_ndjson(os.path.join(wd, name + ".ndjson"), trace_events(res.get("trace") or []))
    mod = "---- MODULE %s ----\nEXTENDS SessionTrace\nCmdsDef == %s\n====\n" % (name, cm)
    cfg = ('SPECIFICATION TSpec\nCONSTANTS\n Cmds <- CmdsDef\n QCap = 100\n MCap = 10\n WCap = 1\n OutCap = 1\n KF_FlushGiveUp = FALSE\n KF_TimeoutFromFlush = FALSE\n'
           ' TraceFile = "%s.ndjson"\nINVARIANT Report\n' % name)
    t = vlib.tlc(wd, name, name + ".cfg", files={name + ".tla": mod, name + ".cfg": cfg}, workers=1, timeout=600, heap="768m",
                 java_opts=["-Dtlc2.tool.impl.Tool.cdot=true"])
    if not t.ok:
        raise vlib.Inconclusive("trace validation run failed for case %d: %s %s" % (case["id"], t.violated, (t.error or t.out)[-800:]))
    acc = [l for l in t.out.splitlines() if l.startswith('<<"ACCEPTED"')]
    return bool(acc), any("ACCEPTED\", TRUE" in l for l in acc), t.distinct, t.depth


def run(tier, replay):
    V = vlib.Verdict(PID, tier)
    kf_flush = "KF_FlushGiveUp" in V.kf
    kf_late = "KF_LateCommand" in V.kf
    rng = random.Random(vlib.seed())
    with vlib.Scratch(PID) as wd:
        states = trans = 0
        strict = ["CmdsOne2", "CmdsOne1"] if tier == "quick" else ["CmdsOne2", "CmdsOne1", "CmdsOne4"]
        for cm in strict:
            r = vlib.tlc(wd, "MC_Session", "G.cfg", files={"G.cfg": session_cfg(cm, False, q=3 if cm == "CmdsOne4" else 2)}, timeout=3300)
            if not r.ok:
                raise vlib.Inconclusive("TLC Session strict %s: %s %s" % (cm, r.violated, (r.error or "")[-1200:]))
            states += r.distinct
            trans += r.generated
            log("TLC Session %s: %d distinct states; AllDelivered, InOrder, <>Terminated hold" % (cm, r.distinct))
        if kf_flush:
            r = vlib.tlc(wd, "MC_Session", "G.cfg", files={"G.cfg": session_cfg("CmdsOne2", True, props="")}, timeout=600)
            if r.violated != "AllDelivered":
                raise vlib.Inconclusive("KF_FlushGiveUp model does not violate AllDelivered")
        # the repaired deviation still distinguishes: with the limit running from flush() the model loses the message in the blocked write
        r = vlib.tlc(wd, "MC_Session", "G.cfg", files={"G.cfg": session_cfg("CmdsOne2", False, props="", kf_timeout=True)}, timeout=600)
        if r.violated != "AllDelivered":
            raise vlib.Inconclusive("KF_TimeoutFromFlush model does not violate AllDelivered")
        if kf_late:
            r = vlib.tlc(wd, "MC_Session", "G.cfg", files={"G.cfg": session_cfg("CmdsTwo", False, props="")}, timeout=600)
            if r.violated != "AllDelivered":
                raise vlib.Inconclusive("two-command model does not show KF_LateCommand")
        # behaviours
        shapes = [("CmdsOne2", [[3, 2]]), ("CmdsOne1", [[5]]), ("CmdsOne4", [[4, 3, 3, 2]]), ("CmdsTwo", [[0], [2]]), ("CmdsTwoB", [[2], [1, 1]]),
                  ("CmdsThree", [[1], [2, 1], [0]])]
        nsim = 25 if tier == "quick" else 400
        cases = []
        for name, cmds in shapes:
            rs = vlib.tlc(wd, "MC_SessionSched", "S.cfg",
                          files={"S.cfg": session_cfg(name, False, spec="SSpec", invs="EmitSched", props="", q=3)}, timeout=600, workers=1,
                          simulate="num=%d" % nsim, extra=["-depth", "120", "-seed", str(vlib.seed())])
            seen = set()
            for line in rs.out.splitlines():
                if line.startswith('"{'):
                    sched = json.loads(json.loads(line))["sched"]
                    key = json.dumps(sched)
                    if key in seen:
                        continue
                    seen.add(key)
                    # every distinct behaviour is replayed in several concretisations (scale, pace, mode)
                    for scale in rng.sample([1, 33, 50], 2 if tier == "quick" else 3):
                        lines = [[max(0, n * scale + (rng.choice([-1, 0, 0, 1]) if n and scale > 1 else 0)) for n in files] for files in cmds]
                        pace = rng.choice(["fast", "quiescent", "stall", "stall"])
                        cases.append({"id": len(cases) + 1, "nofinalnl": rng.random() < 0.25, "cmds": cmds, "steps": sched, "pace": pace, "stallat": rng.randrange(max(1, len(sched))),
                                      "stallms": rng.choice([30, 150, 400]), "grep": rng.random() < 0.3, "catlimit": rng.choice([1, 2, 8]),
                                      "seed": rng.randrange(1 << 40), "scale": scale, "lines": lines, "shape": name})
        if len(cases) < 20:
            raise vlib.Inconclusive("too few behaviours from TLC (%d)" % len(cases))
        rng.shuffle(cases)
        limit = 70 if tier == "quick" else 2000
        multi = [c for c in cases if len(c["cmds"]) > 1][:limit // 4]
        single = [c for c in cases if len(c["cmds"]) == 1][:limit - len(multi)]
        cases = single + multi
        # one slow-consumer case beyond the reader's 3 s truncation check period, file without final newline is C01's; here: lines
        cases.append({"id": 9999, "cmds": [[3, 2]], "steps": [{"a": "send", "k": 1}] + [{"a": "read", "k": 0}] * 3, "pace": "stall", "stallat": 2,
                      "stallms": 3600, "grep": False, "catlimit": 1, "seed": 7, "scale": 60, "lines": [[700, 650]], "shape": "CmdsOne2", "nofinalnl": True})
        # a consumer that is slower than the readers all the way to the end: files of more than two queue lengths, with and
        # without final newline, read at 0.4 ms per message
        for k, (nl, grep) in enumerate([(True, False), (False, False), (True, True)]):
            cases.append({"id": 9990 + k, "cmds": [[3, 2]], "steps": [{"a": "send", "k": 1}] + [{"a": "read", "k": 0}] * 2, "pace": "fast", "stallat": 0,
                          "stallms": 0, "grep": grep, "catlimit": 2, "seed": 11 + k, "scale": 100, "lines": [[460, 333]], "shape": "CmdsOne2",
                          "nofinalnl": nl, "drainus": 400})
        # more files than limiter slots, several times over (reads queue behind the limiter, are admitted later, release)
        for k, (cl, grep) in enumerate([(1, False), (1, True), (2, False)]):
            cases.append({"id": 9970 + k, "cmds": [[4, 3, 3, 2]], "steps": [{"a": "send", "k": 1}] + [{"a": "read", "k": 0}] * 3, "pace": "fast", "stallat": 0,
                          "stallms": 0, "grep": grep, "catlimit": cl, "seed": 51 + k, "scale": 33, "lines": [[130, 100, 99, 66]], "shape": "CmdsOne4",
                          "nofinalnl": k == 2, "drainus": 0, "max": 0})
        # grep that stops early (max) in files that go on for hundreds of lines behind the stop
        for k, mx in enumerate([1, 2, 5]):
            cases.append({"id": 9980 + k, "cmds": [[3, 2]], "steps": [{"a": "send", "k": 1}] + [{"a": "read", "k": 0}] * 2, "pace": "fast", "stallat": 0,
                          "stallms": 0, "grep": True, "max": mx, "catlimit": 2, "seed": 31 + k, "scale": 100, "lines": [[900, 400]], "shape": "CmdsOne2",
                          "nofinalnl": k == 1, "drainus": 0})
        for c in cases:
            c.setdefault("prelude", rng.random() < 0.5)
        for c in cases:
            c.setdefault("max", rng.choice([0, 0, 1, 3]) if c.get("grep") else 0)
        for c in cases:
            if "drainus" not in c:
                c["drainus"] = rng.choice([0, 0, 0, 150]) if sum(sum(x) for x in c["lines"]) > 150 else 0
        for i, c in enumerate(cases):
            c["id"] = i + 1
        cj, oj = os.path.join(wd, "cases.json"), os.path.join(wd, "out.json")
        json.dump(cases, open(cj, "w"))
        rc, out = vlib.go_test(wd, "./internal/clients/connectors", OV, "TestC02Replay", env={"VERIF_CASES": cj, "VERIF_OUT": oj}, timeout=3300)
        if rc != 0 or not os.path.exists(oj):
            raise vlib.Inconclusive("harness failed\n" + out[-2500:])
        results = json.load(open(oj))
        total_lines = 0
        for c, res in zip(cases, results):
            missing = {k: (res["delivered"].get(k, 0), v) for k, v in res["expected"].items() if res["delivered"].get(k, 0) != v}
            total_lines += sum(res["expected"].values())
            bad = list(res.get("bad") or [])
            if missing:
                bad.append("lines delivered/selected per file: %s" % missing)
            if not res["ended"]:
                bad.append("the session did not end by itself")
            if not bad:
                continue
            trace = res.get("trace") or []
            desc = {"case": {k: c[k] for k in ("id", "shape", "lines", "pace", "stallat", "stallms", "grep", "catlimit", "scale")},
                    "steps_head": c["steps"][:15], "bad": bad, "trace_tail": [e for e in trace if e["ev"] not in ("read", "read.case")][-14:]}
            if kf_late and len(c["cmds"]) > 1 and has_late_command(trace, len(c["cmds"])):
                V.known("KF_LateCommand", desc)
            elif kf_flush and has_flush_giveup(trace):
                V.known("KF_FlushGiveUp", desc)
            else:
                V.violation("; ".join(bad)[:300], desc)
        # (B) every recorded session trace against SessionTrace: the real run must be a behaviour of Session's actions
        bad_ids = {c["id"] for c, res in zip(cases, results)
                   if res.get("bad") or not res["ended"] or any(res["delivered"].get(k, 0) != v for k, v in res["expected"].items())}
        vlib.tlc(wd, "MC_Session", "G.cfg", files={"G.cfg": session_cfg("CmdsOne1", False, props="")}, timeout=600)   # copies spec/ once
        with ThreadPoolExecutor(max_workers=max(2, vlib.NCPU // 2)) as ex:
            tv = list(ex.map(lambda cr: validate_trace(wd, cr[0], cr[1]), zip(cases, results)))
        accepted = sum(1 for a in tv if a[0])
        tstates = sum(a[2] for a in tv)
        for (c, res), (acc, refok, _, depth) in zip(zip(cases, results), tv):
            if not acc and os.environ.get("VERIF_DEBUG"):
                import shutil
                shutil.copy(os.path.join(wd, "GST%d.ndjson" % c["id"]), "/tmp/c02_rejected_%d.ndjson" % c["id"])
                log("rejected trace of case %d (%s) kept in /tmp, depth %d, expected %s" % (c["id"], c["shape"], depth, res["expected"]))
            if c["id"] in bad_ids:
                continue      # already reported from the output; the trace served the attribution above
            if not acc:
                V.diverge("case %d (%s, %s): output complete but the recorded trace is not a behaviour of SessionTrace "
                          "(longest matched prefix about %d steps)" % (c["id"], c["shape"], c["pace"], depth))
            elif not refok:
                V.diverge("case %d: output complete but Ref is false along every accepted reading of the trace" % c["id"])
        log("trace validation: %d of %d recorded session traces accepted by SessionTrace (%d states)" % (accepted, len(tv), tstates))
        # binding self-test: an accepted trace in which flush() reports "nothing queued" before the last lines were read,
        # and one from which the end of a Read() carrying a line was removed, must both be rejected
        binding_selftest = "no suitable trace in this run"
        for (c, res), (acc, refok, _, _) in zip(zip(cases, results), tv):
            evs = trace_events(res.get("trace") or [])
            fl = [i for i, e in enumerate(evs) if e["ev"] == "flush" and e["v"] == 0]
            ln = [i for i, e in enumerate(evs) if e["ev"] == "line"]
            if acc and len(c["cmds"]) == 1 and fl and len(ln) > 12 and fl[0] > ln[-1]:
                t1 = [e for i, e in enumerate(evs) if i != fl[0]]
                t1.insert(ln[-4] - 1, evs[fl[0]])
                t2 = [e for i, e in enumerate(evs) if i != ln[len(ln) // 2]]
                verdicts = []
                for k, tr in enumerate((t1, t2)):
                    saved = trace_events
                    try:
                        globals()["trace_events"] = lambda _t, tr=tr: tr
                        verdicts.append(validate_trace(wd, dict(c, id=900000 + 10 * c["id"] + k), res)[0])
                    finally:
                        globals()["trace_events"] = saved
                if any(verdicts):
                    raise vlib.Inconclusive("SessionTrace accepts a corrupted trace (%s): the trace spec does not bind" % verdicts)
                binding_selftest = "2 corrupted traces (early flush, dropped line event) rejected"
                break
        states += tstates
        # end-to-end over the real SSH transport (real dserver processes, real client binary), free-running
        ssh_runs = e2e.stage_slow(wd, V, rng, tier)
        win_runs = e2e.stage_window(wd, V, tier)
        log("SSH, data beyond the SSH window with a consumer pausing 8 s inside the last message: %d run(s)" % win_runs)
        ssh_runs += win_runs
        e2e.stage_tail_stall(wd, V, tier)        # serverless dcat binary, consumer stalling 6.5 s just before the end
        log("SSH stage: %d client runs against real dserver processes" % ssh_runs)
        cov = {"ssh_slow_consumer_runs": ssh_runs, "states": states, "transitions": trans, "traces_validated_against_impl": len(cases),
               "session_traces_accepted_by_SessionTrace": accepted, "session_traces_checked": len(tv), "trace_binding_selftest": binding_selftest,
               "evaluations": len(cases), "distinct_nontrivial": sum(1 for c in cases if c["pace"] != "fast" or len(c["cmds"]) > 1),
               "rule": "cases = distinct complete behaviours of SessionSched (order of 'deliver command k' and 'copy once' steps) from TLC "
                       "-simulate for 6 command/file shapes, each replayed with real line counts (model lines x 1/33/50, +-1 around the "
                       "100-entry queues), a pace (fast / wait for quiescence / stall 30-400 ms at a seeded step), cat or grep, cat limit "
                       "1/2/8; non-trivial = not the fast pace or more than one command; plus one 3.6 s stall",
               "exhaustive": False, "lines_expected": total_lines, "samples": [{k: cases[0][k] for k in ("shape", "lines", "pace", "steps")}]}
        return V.finish(cov, ["the harness is the transport (one copy iteration = one Read of up to 32 KiB); the consumer never blocks, back-pressure is "
                              "exercised through the pace of the copy loop", "SSH transport: see DESIGN (not part of this check yet)"])
