"""C14 - connection slots are bounded by MaxConnections and always given back.

spec/Connections.tla: per connection none/accepted/authed/closed, shell requests, the server's counter; TLC checks
NeverMoreThanMax, ReportedEqualsOpen, NeverNegative and AcceptRight over all histories of 3-4 connections.  (A) histories
from TLC -simulate are executed by raw SSH clients against an in-process dtail server on a loopback port (bad
credentials, health and key logins, TCP close mid-handshake, connections without channel, several channels, several shell
requests, orderly and abrupt close); after every event the server's counter is compared with the connections really open
and every acceptance/refusal with the room really left."""
import json
import os
import random

import vlib
from vlib import log

PID = "C14"
OV = {"internal/server/vcommon_test.go": ("common/vcommon_test.go", "server"),
      "internal/server/c14_test.go": "server/c14_test.go"}


def cfg(conns, mx, kf1, kf2, inv="NeverMoreThanMax ReportedEqualsOpen NeverNegative", prop="AcceptRight", view=True):
    s = ("SPECIFICATION Spec\nCONSTANTS\n Conns <- %s\n Max = %d\n MaxShells = 2\n KF_CountAfterHandshake = %s\n KF_DecrementPerShell = %s\n KF_RequestBurstLeak = FALSE\n" %
         (conns, mx, "TRUE" if kf1 else "FALSE", "TRUE" if kf2 else "FALSE"))
    if inv:
        s += "INVARIANTS %s\n" % inv
    if prop:
        s += "PROPERTY %s\n" % prop
    if view:
        s += "VIEW viewNoHist\n"
    return s


def run(tier, replay):
    V = vlib.Verdict(PID, tier)
    kf1 = "KF_CountAfterHandshake" in V.kf
    kf2 = "KF_DecrementPerShell" in V.kf
    rng = random.Random(vlib.seed())
    with vlib.Scratch(PID) as wd:
        states = trans = 0
        for conns, mx in ([("MCConns3", 2), ("MCConns3", 1)] if tier == "quick" else [("MCConns4", 2), ("MCConns4", 3), ("MCConns3", 1)]):
            r = vlib.tlc(wd, "MC_Connections", "G.cfg", files={"G.cfg": cfg(conns, mx, False, False)}, timeout=3000)
            if not r.ok:
                raise vlib.Inconclusive("TLC Connections strict: %s %s" % (r.violated, (r.error or "")[-1000:]))
            states += r.distinct
            trans += r.generated
            log("TLC Connections %s Max=%d: %d distinct states; the four properties hold" % (conns, mx, r.distinct))
        if kf1 or kf2:
            r = vlib.tlc(wd, "MC_Connections", "G.cfg", files={"G.cfg": cfg("MCConns3", 2, kf1, kf2, prop="")}, timeout=600)
            if r.violated is None:
                raise vlib.Inconclusive("deviation model does not violate the Ref")
        # non-vacuity of the repaired deviation: with KF_RequestBurstLeak the design loses a slot
        rl = vlib.tlc(wd, "MC_Connections", "L.cfg", files={"L.cfg": cfg("MCConns3", 2, False, False, prop="").replace("KF_RequestBurstLeak = FALSE", "KF_RequestBurstLeak = TRUE")}, timeout=600)
        if rl.violated != "ReportedEqualsOpen":
            raise vlib.Inconclusive("the model of the unrepaired request handling does not lose a slot (%s)" % rl.violated)
        cases = []
        nsim = 80 if tier == "quick" else 600
        for conns, mx in [("MCConns3", 2), ("MCConns3", 1), ("MCConns4", 2)]:
            rs = vlib.tlc(wd, "MC_Connections", "S.cfg", files={"S.cfg": cfg(conns, mx, kf1, kf2, inv="EmitHist", prop="", view=False)}, timeout=600,
                          workers=1, simulate="num=%d" % nsim, extra=["-depth", "40", "-seed", str(vlib.seed())])
            seen = set()
            for line in rs.out.splitlines():
                if line.startswith('"{'):
                    h = json.loads(json.loads(line))["hist"]
                    key = json.dumps([(x["a"], x["c"]) for x in h])
                    if key not in seen:
                        seen.add(key)
                        cases.append({"id": 0, "max": mx, "hist": h, "seed": rng.randrange(1 << 40)})
        if len(cases) < 10:
            raise vlib.Inconclusive("too few histories from TLC: %d" % len(cases))
        rng.shuffle(cases)
        # histories that contain the interesting events first
        def interesting(c):
            acts = [x["a"] for x in c["hist"]]
            shells = {}
            for x in c["hist"]:
                if x["a"] == "shell":
                    shells[x["c"]] = shells.get(x["c"], 0) + 1
            noshell = any(x["a"] == "close" and shells.get(x["c"], 0) == 0 for x in c["hist"])
            return noshell or any(v > 1 for v in shells.values()) or "authfail" in acts or "otherchannel" in acts or "channelburst" in acts or "accepterror" in acts or "badrequest" in acts
        cases.sort(key=lambda c: not interesting(c))
        cases = cases[:(45 if tier == "quick" else 400)]
        # a burst: Max+2 TCP connections before any handshake
        cases.append({"id": 0, "max": 2, "seed": 11, "hist": [{"a": "connect", "c": i, "counter": 0, "refused": False} for i in (1, 2, 3, 4)] +
                      [{"a": "auth", "c": i, "counter": 0, "refused": False} for i in (1, 2, 3, 4)] +
                      [{"a": "shell", "c": i, "counter": 0, "refused": False} for i in (1, 2, 3, 4)] +
                      [{"a": "close", "c": i, "counter": 0, "refused": False} for i in (1, 2, 3, 4)], "burst": True})
        # one connection with a served session and more channel opens in flight than the SSH library queues, then it ends
        for sd in (21, 22, 23):
            cases.append({"id": 0, "max": 2, "seed": sd, "hist": [{"a": a, "c": 1, "counter": 0, "refused": False}
                                                                  for a in ("connect", "auth", "shell", "channelburst", "close")]})
        # two shell requests on one channel, then an unknown request followed by a burst on that channel, then the connection ends
        for sd in (41, 42, 43, 44, 45, 46):
            cases.append({"id": 0, "max": 2, "seed": sd, "hist": [{"a": a, "c": 1, "counter": 0, "refused": False}
                                                                  for a in ("connect", "auth", "shell", "shell", "badrequest")]})
        # an accept that fails, then connections up to the limit and one more
        for sd in (31, 32):
            cases.append({"id": 0, "max": 2, "seed": sd, "hist": [{"a": a, "c": c, "counter": 0, "refused": False} for a, c in
                          (("connect", 1), ("accepterror", 2), ("connect", 2), ("auth", 1), ("auth", 2), ("accepterror", 3), ("connect", 3), ("close", 1), ("close", 2))]})
        for i, c in enumerate(cases):
            c["id"] = i + 1
        cj, oj = os.path.join(wd, "cases.json"), os.path.join(wd, "out.json")
        json.dump(cases, open(cj, "w"))
        # beside the replay: a connection that stays silent for 12 s (longer than a handshake timeout a server may have)
        import threading
        so = os.path.join(wd, "silent.json")
        silent = {}
        def run_silent():
            os.makedirs(os.path.join(wd, "silent"), exist_ok=True)
            silent["rc"], silent["out"] = vlib.go_test(os.path.join(wd, "silent"), "./internal/server", OV, "TestC14Silent",
                                                       env={"VERIF_OUT": so, "VERIF_SILENT_S": 12 if tier == "quick" else 40}, timeout=600)
        th = threading.Thread(target=run_silent)
        th.start()
        rc, out = vlib.go_test(wd, "./internal/server", OV, "TestC14Replay", env={"VERIF_CASES": cj, "VERIF_OUT": oj}, timeout=1500)
        th.join()
        if silent.get("rc") != 0 or not os.path.exists(so):
            raise vlib.Inconclusive("silent connection harness failed\n" + str(silent.get("out"))[-2000:])
        for b in json.load(open(so))["bad"] or []:
            V.violation("silent connection: " + b, {"bad": b})
        if rc != 0 or not os.path.exists(oj):
            raise vlib.Inconclusive("harness failed\n" + out[-2500:])
        results = json.load(open(oj))
        for c, res in zip(cases, results):
            if res.get("problem"):
                V.diverge("case %d: %s" % (c["id"], res["problem"]))
                continue
            if not res.get("bad"):
                continue
            desc = {"case": {"id": c["id"], "max": c["max"]}, "history": [(x["a"], x["c"]) for x in c["hist"]], "bad": res["bad"][:4],
                    "observed": [(o["a"], o["c"], o["outcome"], "counter=%d" % o["counter"], "open=%d" % o["open"]) for o in res["obs"]]}
            explained = (kf1 or kf2) and all(o["counter"] == o["model_counter"] for o in res["obs"]) and not c.get("burst")
            burst_kf = kf1 and c.get("burst")
            if explained or burst_kf:
                V.known("KF_DecrementPerShell" if (kf2 and not burst_kf) else "KF_CountAfterHandshake", desc)
            else:
                V.violation(res["bad"][0], desc)
        # churn: disconnects overlapping accepts (the two critical sections of the counter run from different goroutines)
        co = os.path.join(wd, "churn.json")
        if len(V.violations) >= 1 and any("mutex is held for good" in v["what"] for v in V.violations) or len(V.violations) >= 3:
            # the replay has already shown a server that does not recover: the churn stage would only wait for its timeouts
            churn = {"bad": [], "connections": 0, "skipped": "the replay reported violations"}
        else:
            rc, out = vlib.go_test(wd, "./internal/server", OV, "TestC14Churn", env={"VERIF_OUT": co, "VERIF_ROUNDS": 6 if tier == "quick" else 40}, timeout=1500)
            if rc != 0 or not os.path.exists(co):
                raise vlib.Inconclusive("churn harness failed\n" + out[-2500:])
            churn = json.load(open(co))
        for b in churn["bad"] or []:
            V.violation("churn: " + b, {"connections": churn["connections"], "bad": churn["bad"]})
        cov = {"states": states, "transitions": trans, "traces_validated_against_impl": len(cases), "churn_connections": churn["connections"],
               "evaluations": sum(len(r.get("obs") or []) for r in results), "distinct_nontrivial": sum(1 for c in cases if interesting(c) or c.get("burst")),
               "rule": "cases = distinct complete histories of Connections.tla from TLC -simulate for (3 connections, Max 2), (3, 1), (4, 2), plus "
                       "one burst of Max+2 TCP connections before any handshake; every event is executed by a raw SSH client against an in-process "
                       "server; non-trivial = the history has a failed authentication, a connection closed without shell request, or several "
                       "shell requests on one connection; evaluations = events observed",
               "exhaustive": False, "samples": [{"history": [(x["a"], x["c"]) for x in cases[0]["hist"]]}, {"observed": results[0].get("obs")}]}
        return V.finish(cov, ["the server's counter is read white-box (stats.currentConnections) after it has been stable for 30 ms",
                              "refusal is observed as EOF before the server's SSH version string"])
