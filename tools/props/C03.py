"""C03 - dgrep selects exactly the lines grep semantics prescribe.

spec/GrepContext.tla: the context state machine (Impl) against RefOut written from the statement; TLC checks
ImplIsRef for every file up to N lines x before/after/max x regex flag.  (A) every case with its Ref answer is
replayed through the real reader (internal/io/fs) with a real regex; (B) TLC evaluates RefOut on records of
random files of 40-200 lines.  Terminator-dependent patterns (foo$, ^$, [^a]) are checked separately."""
import json
import os
import random

import vlib
from vlib import log

PID = "C03"
OV = {"internal/io/fs/vcommon_test.go": ("common/vcommon_test.go", "fs"),
      "internal/io/fs/c03_test.go": "fs/c03_test.go"}


def run(tier, replay):
    V = vlib.Verdict(PID, tier)
    n = 5 if tier == "quick" else 8
    pvals = "{0, 1, 2, 9}" if tier == "quick" else "{0, 1, 2, 3, 9}"
    with vlib.Scratch(PID) as wd:
        rec = os.path.join(wd, "c03_records.ndjson")
        rc, out = vlib.go_test(wd, "./internal/io/fs", OV, "TestC03Records",
                               env={"VERIF_OUT": rec, "VERIF_N": 25 if tier == "quick" else 80}, timeout=900)
        if rc != 0 or not os.path.exists(rec):
            raise vlib.Inconclusive("records harness failed\n" + out[-2000:])
        mc = ("---- MODULE GGrep ----\nEXTENDS GrepContextCases\nMCP == %s\nMCK == {\"default\", \"invert\", \"noop\"}\n====\n" % pvals)
        cfg = "SPECIFICATION Spec\nCONSTANTS\n N = %d\n P <- MCP\n Kinds <- MCK\nINVARIANT ImplIsRef\n" % n
        r = vlib.tlc(wd, "GGrep", "GGrep.cfg", files={"GGrep.tla": mc, "GGrep.cfg": cfg}, timeout=3000)
        if not r.ok:
            raise vlib.Inconclusive("TLC: %s %s" % (r.violated, (r.error or "")[-1500:]))
        log("TLC GrepContext N=%d: %d distinct states, ImplIsRef holds" % (n, r.distinct))
        records = vlib.read_ndjson(rec)
        ids = vlib.printed_set(r.out, "BADRECORDS")
        if ids:
            for rr in records:
                if rr["id"] in ids:
                    V.violation("random file: delivered lines differ from RefOut (evaluated by TLC)",
                                {k: rr[k] for k in ("id", "kind", "b", "a", "m", "out")} | {"file": "".join(map(str, rr["file"]))})
        cases = vlib.read_ndjson(os.path.join(wd, "c03_cases.ndjson"))
        if tier == "thorough" and len(cases) > 120000:
            rng = random.Random(vlib.seed())
            cases = rng.sample(cases, 120000)
        cj, oj = os.path.join(wd, "cases.json"), os.path.join(wd, "out.json")
        json.dump(cases, open(cj, "w"))
        rc, out = vlib.go_test(wd, "./internal/io/fs", OV, "TestC03Replay", env={"VERIF_CASES": cj, "VERIF_OUT": oj}, timeout=3000)
        if rc != 0 or not os.path.exists(oj):
            raise vlib.Inconclusive("replay harness failed\n" + out[-2000:])
        res = json.load(open(oj))
        for b in res["bad"] or []:
            b["case"]["file"] = "".join("1" if x else "0" for x in b["case"]["file"])
            V.violation("reader output differs from Ref: " + (b.get("problem") or "line numbers"), b)
        aj = os.path.join(wd, "anchors.json")
        rc, out = vlib.go_test(wd, "./internal/io/fs", OV, "TestC03Anchors", env={"VERIF_OUT": aj}, timeout=300)
        if rc != 0 or not os.path.exists(aj):
            raise vlib.Inconclusive("anchor harness failed\n" + out[-2000:])
        anchors = json.load(open(aj))
        for a in anchors:
            if (a["got"] or []) != (a["want"] or []):
                if not V.known("KF_MatchIncludesNewline", a):
                    pass
        nontriv = sum(1 for c in cases if (c["b"] or c["a"] or c["m"]) and c["exp"] and len(c["exp"]) < len(c["file"]))
        cov = {"states": r.distinct, "transitions": r.generated, "traces_validated_against_impl": len(records),
               "evaluations": res["evaluations"] + len(records) + len(anchors), "distinct_nontrivial": nontriv,
               "rule": "cases = all boolean files up to N lines x kind x before/after/max values, each with the Ref answer from TLC; "
                       "non-trivial = some context option set and a proper non-empty subset of the lines is expected",
               "exhaustive": len(cases) == len(vlib.read_ndjson(os.path.join(wd, "c03_cases.ndjson"))),
               "samples": [c for c in cases if c["b"] and c["a"] and c["m"] and len(c["file"]) == n][:2] + [anchors[0]],
               "N": n}
        return V.finish(cov, ["Go's regexp decides 'matches'; the model abstracts a line to a boolean",
                              "reader API level (internal/io/fs); option transport from the client is C12's subject"])
