"""C09 - sessions are granted only to authorised keys and the fixed service users.

spec/Auth.tla: authorized-keys files as sequences of line kinds, the scanning loop around ParseAuthorizedKey (Impl)
against 'accepted iff listed' (Ref); the password callback for the three service users with a job table and source
addresses; histories of offers (authentication is stateless); the health user answers only 'health'.
(A) every file / every (user, password, address) case enumerated by TLC is rendered with real keys and run through
the real verifyAuthorizedKeys(), PublicKeyCallback(), Server.Callback() and the health handler."""
import json
import os

import vlib
from vlib import log

PID = "C09"


def run(tier, replay):
    V = vlib.Verdict(PID, tier)
    kf_open = "KF_TrailingNonKeyLines" in V.kf
    maxlines = 3 if tier == "quick" else 4
    with vlib.Scratch(PID) as wd:
        mc = "---- MODULE GAuth ----\nEXTENDS AuthCases\n====\n"
        # histories multiply the state space: model-check them with shorter files, enumerate the cases with MaxLines
        cfg = ("SPECIFICATION Spec\nCONSTANTS\n MaxLines = 2\n KF_TrailingNonKeyLines = %s\nINVARIANTS %s PwDecisionsRight HealthOnly\n"
               % ("TRUE" if kf_open else "FALSE", "NeverGrantUnlisted" if kf_open else "KeyDecisionsRight NeverGrantUnlisted"))
        r = vlib.tlc(wd, "GAuth", "GAuth.cfg", files={"GAuth.tla": mc, "GAuth.cfg": cfg}, timeout=3000)
        if not r.ok:
            raise vlib.Inconclusive("TLC Auth: %s %s" % (r.violated, (r.error or "")[-1500:]))
        cfg2 = cfg.replace("MaxLines = 2", "MaxLines = %d" % maxlines).replace("SPECIFICATION Spec", "INIT Init\nNEXT UNCHANGED_vars")
        # second run only to enumerate the larger case set (ASSUMEs are evaluated at start-up); no behaviours explored
        mc3 = "---- MODULE GAuth3 ----\nEXTENDS AuthCases\nUNCHANGED_vars == UNCHANGED vars\nInit0 == file = [u \\in {\"alice\", \"bob\"} |-> <<>>] /\\ hist = <<>> /\\ rewrites = 0\n====\n"
        cfg3 = "INIT Init0\nNEXT UNCHANGED_vars\nCONSTANTS\n MaxLines = %d\n KF_TrailingNonKeyLines = %s\n" % (maxlines, "TRUE" if kf_open else "FALSE")
        r3 = vlib.tlc(wd, "GAuth3", "GAuth3.cfg", files={"GAuth3.tla": mc3, "GAuth3.cfg": cfg3}, timeout=3000)
        if not r3.ok:
            raise vlib.Inconclusive("TLC Auth cases: %s %s" % (r3.violated, (r3.error or "")[-1500:]))
        log("TLC Auth: %d states (histories, MaxLines=2); cases enumerated for MaxLines=%d" % (r.distinct, maxlines))
        keycases = vlib.read_ndjson(os.path.join(wd, "c09_keycases.ndjson"))
        pwcases = vlib.read_ndjson(os.path.join(wd, "c09_pwcases.ndjson"))
        kj, ko = os.path.join(wd, "k.json"), os.path.join(wd, "ko.json")
        json.dump(keycases, open(kj, "w"))
        ov = {"internal/ssh/server/vcommon_test.go": ("common/vcommon_test.go", "server"),
              "internal/ssh/server/c09_test.go": "sshserver/c09_test.go"}
        rc, out = vlib.go_test(wd, "./internal/ssh/server", ov, "TestC09Keys", env={"VERIF_CASES": kj, "VERIF_OUT": ko, "VERIF_N": 40 if tier == "quick" else 1500}, timeout=3000)
        if rc != 0 or not os.path.exists(ko):
            raise vlib.Inconclusive("key harness failed\n" + out[-2500:])
        kres = json.load(open(ko))
        evals = kres["evaluations"]
        for b in kres["bad"] or []:
            unlisted = [k for k in b["accepted"] if k not in b["ref"]]
            if unlisted:
                V.violation("a key that is not listed in the authorized-keys file was accepted: %s" % unlisted, b)
            elif kf_open and sorted(b["accepted"]) == sorted(b["impl_model"]):
                V.known("KF_TrailingNonKeyLines", b)
            else:
                V.violation("a listed key was rejected: accepted %s, listed %s" % (b["accepted"], b["ref"]), b)
        for b in kres["history_bad"] or []:
            V.violation("the decision for an offered key depends on earlier offers (granted=%s, listed=%s)" % (b["granted"], b["ref"]), b)
        pj, po = os.path.join(wd, "p.json"), os.path.join(wd, "po.json")
        json.dump(pwcases, open(pj, "w"))
        ov2 = {"internal/server/vcommon_test.go": ("common/vcommon_test.go", "server"),
               "internal/server/c09_pw_test.go": "server/c09_pw_test.go"}
        rc, out = vlib.go_test(wd, "./internal/server", ov2, "TestC09Password", env={"VERIF_CASES": pj, "VERIF_OUT": po}, timeout=600)
        if rc != 0 or not os.path.exists(po):
            raise vlib.Inconclusive("password harness failed\n" + out[-2500:])
        pres = json.load(open(po))
        evals += pres["evaluations"]
        for b in pres["bad"] or []:
            V.violation("password callback: user=%s pw=%s addr=%s granted=%s, Ref=%s" %
                        (b["case"]["user"], b["case"]["pw"], b["case"]["addr"], b["granted"], b["case"]["ref"]), b)
        for b in pres.get("bad2") or []:
            V.violation("password callback after an earlier login (user=%s pw=%s addr=%s): user=%s pw=%s addr=%s granted=%s, Ref=%s" %
                        (b["first"]["user"], b["first"]["pw"], b["first"]["addr"], b["case"]["user"], b["case"]["pw"], b["case"]["addr"],
                         b["granted"], b["case"]["ref"]), b)
        # the same decisions where they are enforced: real SSH logins to the real server, attempts and Ref from TLC
        wirecases = vlib.read_ndjson(os.path.join(wd, "c09_wirecases.ndjson"))
        wj, wo = os.path.join(wd, "w.json"), os.path.join(wd, "wo.json")
        json.dump(wirecases, open(wj, "w"))
        ovw = {"internal/server/vcommon_test.go": ("common/vcommon_test.go", "server"),
               "internal/server/c14_test.go": "server/c14_test.go", "internal/server/c09_wire_test.go": "server/c09_wire_test.go"}
        rc, out = vlib.go_test(wd, "./internal/server", ovw, "TestC09Wire", env={"VERIF_CASES": wj, "VERIF_OUT": wo}, timeout=900)
        if rc != 0 or not os.path.exists(wo):
            raise vlib.Inconclusive("SSH login harness failed\n" + out[-2500:])
        wres = json.load(open(wo))
        evals += wres["evaluations"]
        for b in wres["bad"] or []:
            c = b["case"]
            if b["granted"] and not c["ref"]:
                V.violation("SSH login granted: user=%s method=%s credential=%s (Ref: refused)" % (c["user"], c["method"], c["cred"]), b)
            elif b["note"] and b["granted"] == c["ref"]:
                V.violation("SSH login user=%s: %s" % (c["user"], b["note"]), b)
            else:
                V.violation("SSH login refused: user=%s method=%s credential=%s (Ref: granted) %s" % (c["user"], c["method"], c["cred"], b["note"][:120]), b)
        log("SSH logins to the real server: %d attempts (user x method x credential from TLC), %d differ from Ref" % (wres["evaluations"], len(wres["bad"] or [])))
        co = os.path.join(wd, "conc.json")
        rc, out = vlib.go_test(wd, "./internal/ssh/server", ov, "TestC09Concurrent", env={"VERIF_OUT": co, "VERIF_N": 150 if tier == "quick" else 3000}, timeout=1200)
        if rc != 0 or not os.path.exists(co):
            raise vlib.Inconclusive("concurrent login harness failed\n" + out[-2000:])
        cres = json.load(open(co))
        evals += cres["evaluations"]
        for b in cres["bad"] or []:
            V.violation("overlapping logins: " + b, {"bad": cres["bad"][:5]})
        ho = os.path.join(wd, "ho.json")
        ov3 = {"internal/server/handlers/vcommon_test.go": ("common/vcommon_test.go", "handlers"),
               "internal/server/handlers/c09_health_test.go": "handlers/c09_health_test.go"}
        rc, out = vlib.go_test(wd, "./internal/server/handlers", ov3, "TestC09Health", env={"VERIF_OUT": ho}, timeout=600)
        if rc != 0 or not os.path.exists(ho):
            raise vlib.Inconclusive("health harness failed\n" + out[-2500:])
        for h in json.load(open(ho)):
            evals += 1
            want_ok = h["cmd"].split(" ")[0] == "health"
            if h["content"]:
                V.violation("a health session returned file content for command '%s'" % h["cmd"], h)
            elif h["ok"] != want_ok:
                V.violation("health session answered OK=%s to command '%s'" % (h["ok"], h["cmd"]), h)
        nontriv = sum(1 for c in keycases if c["ref"] and any(k in ("cmt", "blank", "junk", "Aopt") for k in c["file"]))
        cov = {"states": r.distinct + r3.distinct, "transitions": r.generated + r3.generated,
               "traces_validated_against_impl": len(keycases) + len(pwcases),
               "evaluations": evals, "distinct_nontrivial": nontriv,
               "rule": "cases = every authorized-keys file up to MaxLines line kinds (x final newline x 3 offered keys), every "
                       "(user, password, address) triple, random 3-offer histories for two users, every health command word; "
                       "non-trivial = a file that lists a key and also has a comment/blank/junk/options line",
               "exhaustive": True, "samples": [keycases[len(keycases) // 2], pwcases[7]], "maxlines": maxlines}
        return V.finish(cov, ["SSH signature verification (proof of possession) is x/crypto's job and trusted; the check drives the callbacks",
                              "allow-list addresses are IP literals (no DNS in the sandbox)"])
