"""C01 - dcat reproduces file content byte for byte.

spec/Wire.tla: reader (line assembly, MaxLineLength split, EOF flush), server framing into a transport buffer of P
bytes, client reassembly and hidden-message dispatch as functions over byte classes {ordinary x/y, newline, 0xAC, '.'};
TLC checks Faithful (Impl = Ref outside the named protocol-level deviations) for every file up to MaxLen.
(A) exact scale: every case is concretised (bytes drawn from 0x00, '%', '\\r', ESC, 0x7F, 0x80, 0xFF, ';', '|' ...)
and sent through the real reader, ServerHandler.Read(p) with exactly P bytes, ClientHandler.Write and the stdout
logger (plain, .gz/.gzip/.zst variants).  Real scale: the dcat binary, serverless, lines of k x 8 KiB around
MaxLineLength and above the 32 KiB copy buffer; (B) TLC evaluates Exp on the collapsed records."""
import json
import os
import random
import subprocess

import e2e
import vlib
from vlib import log

PID = "C01"
OV = {"internal/clients/connectors/vcommon_test.go": ("common/vcommon_test.go", "connectors"),
      "internal/clients/connectors/c01_test.go": "connectors/c01_test.go"}
S = 8192


def real_scale(wd, V, rng, n):
    """runs the dcat binary on files that are images of abstract files under x -> 'a'*S, y -> 'b'*S, n -> '\\n'"""
    exe = vlib.go_build(wd, "./cmd/dcat", os.path.join(wd, "dcat"), tags="")
    recs = []
    for i in range(n):
        # MaxLineLength 8 KiB ... 1 MiB (the default): messages from below one transport read (32 KiB) to several of them
        m = rng.choice([1, 2, 3, 5, 6, 9, 12, 128])
        length = rng.randint(1, 12) if m < 9 else rng.randint(6, 22)
        f = [rng.choice("xxyn" if m < 9 else "xxxxyyn") for _ in range(length)]
        if rng.random() < 0.3 and f and f[-1] == "n":
            f = f[:-1]
        cfgp = os.path.join(wd, "dcat%d.json" % i)
        json.dump({"Server": {"MaxLineLength": m * S}}, open(cfgp, "w"))
        data = b"".join({"x": b"a" * S, "y": b"b" * S, "n": b"\n"}[c] for c in f)
        name = "big%d.log" % i
        variant = i % 4
        path = os.path.join(wd, name)
        if variant == 1:
            import gzip
            path += ".gz"
            with gzip.open(path, "wb") as fh:
                fh.write(data)
        else:
            open(path, "wb").write(data)
        try:
            p = subprocess.run([exe, "--plain", "--cfg", cfgp, "--logDir", os.path.join(wd, "log"), "--files", path],
                               stdin=subprocess.DEVNULL, stdout=subprocess.PIPE, stderr=subprocess.PIPE, timeout=60, env=vlib.goenv())
        except subprocess.TimeoutExpired:
            V.violation("dcat did not terminate within 60 s", {"abstract_file": "".join(f), "m": m})
            continue
        out = p.stdout
        # collapse back: runs of S 'a' -> x, S 'b' -> y, '\n' -> n; anything else -> '?'
        sym = []
        j = 0
        while j < len(out):
            if out[j:j + 1] == b"\n":
                sym.append("n")
                j += 1
            elif out[j:j + S] == b"a" * S:
                sym.append("x")
                j += S
            elif out[j:j + S] == b"b" * S:
                sym.append("y")
                j += S
            else:
                sym.append("q")
                j += 1
                if len(sym) > 400:
                    break
        recs.append({"id": i + 1, "f": f, "m": m, "out": sym, "rc": p.returncode, "stderr": p.stderr.decode(errors="replace")[-300:]})
        os.remove(path)
    return recs


def run(tier, replay):
    V = vlib.Verdict(PID, tier)
    kf_d = "KF_DelimiterInContent" in V.kf
    kf_dot = "KF_LeadingDotPlain" in V.kf
    kf_long = "KF_FrameLongerThanBuffer" in V.kf
    rng = random.Random(vlib.seed())
    maxlen, caselen = (5, 4) if tier == "quick" else (6, 5)
    with vlib.Scratch(PID) as wd:
        recs = real_scale(wd, V, rng, 24 if tier == "quick" else 120)
        vlib.write_ndjson(os.path.join(wd, "c01_records.ndjson"), [{"id": r["id"], "f": r["f"], "m": r["m"], "out": r["out"]} for r in recs])
        mc = ("---- MODULE GWire ----\nEXTENDS WireCases\nMCMs == {2, 3, 6}\nMCPs == {4, 20}\n"
              "Records == ndJsonDeserialize(\"c01_records.ndjson\")\n"
              "ASSUME PrintT(<<\"BADRECORDS\", {Records[i].id : i \\in {j \\in 1..Len(Records) : Records[j].out # Exp(Records[j].f, 0, Records[j].m)}}>>)\n====\n")
        cfg = ("SPECIFICATION Spec\nCONSTANTS\n MaxLen = %d\n CaseLen = %d\n Ms <- MCMs\n Ps <- MCPs\n KF_FrameLongerThanBuffer = %s\n KF_LeadingDotPlain = %s\nINVARIANT Faithful\n"
               % (maxlen, caselen, "TRUE" if kf_long else "FALSE", "TRUE" if kf_dot else "FALSE"))
        r = vlib.tlc(wd, "GWire", "G.cfg", files={"GWire.tla": mc, "G.cfg": cfg}, timeout=3300, heap="24g")
        if not r.ok:
            raise vlib.Inconclusive("TLC Wire: %s %s" % (r.violated, (r.error or "")[-1500:]))
        log("TLC Wire MaxLen=%d: %d states, Faithful holds outside the protocol-level deviations" % (maxlen, r.distinct))
        bad = vlib.printed_set(r.out, "BADRECORDS")
        for rr in recs:
            if rr["id"] in bad or rr["rc"] != 0:
                V.violation("dcat binary (real scale, lines of k x 8 KiB): output differs from Exp evaluated by TLC (rc=%d)" % rr["rc"],
                            {"abstract_file": "".join(rr["f"]), "m_times_8KiB": rr["m"], "output_collapsed": "".join(rr["out"])[:200], "stderr": rr["stderr"]})
        cases = vlib.read_ndjson(os.path.join(wd, "c01_cases.ndjson"))
        full = [c for c in cases if len(c["f"]) < caselen]
        top = [c for c in cases if len(c["f"]) == caselen]
        rng.shuffle(top)
        chosen = full + top[:(1200 if tier == "quick" else 30000)]
        cj, oj = os.path.join(wd, "cases.json"), os.path.join(wd, "out.json")
        json.dump(chosen, open(cj, "w"))
        rc, out = vlib.go_test(wd, "./internal/clients/connectors", OV, "TestC01Exact", env={"VERIF_CASES": cj, "VERIF_OUT": oj}, timeout=3300)
        if rc != 0 or not os.path.exists(oj):
            raise vlib.Inconclusive("harness failed\n" + out[-2500:])
        res = json.load(open(oj))
        for b in res["bad"] or []:
            c = b["case"]
            explained = b["got"] == b["impl_model_output"] and not b["problem"]
            desc = {"file_classes": "".join(c["f"]), "input": b["input"], "m": c["m"], "p": c["p"], "plain": c["plain"],
                    "got": b["got"], "want": b["want"], "problem": b["problem"]}
            if c["hasd"] and kf_d and explained:
                V.known("KF_DelimiterInContent", desc)
            elif c["dot"] and kf_dot and explained:
                V.known("KF_LeadingDotPlain", desc)
            elif c["toolong"] and kf_long:
                V.known("KF_FrameLongerThanBuffer", desc)
            else:
                V.violation("stdout differs from the file (with the permitted MaxLineLength newlines): " + (b["problem"] or ""), desc)
        # the one control message the client knows, as the beginning of a line of the file (plain mode)
        sy = os.path.join(wd, "syn.json")
        rc, out = vlib.go_test(wd, "./internal/clients/connectors", OV, "TestC01SynText", env={"VERIF_OUT": sy}, timeout=300)
        if rc != 0 and vlib.died_in_dtail(out) >= 0:
            i = vlib.died_in_dtail(out)
            V.violation("plain mode: the client died on a file with lines that look like protocol messages: " + out[i:i + 100].splitlines()[0], {"output": out[i:i + 1500]})
            open(sy, "w").write("[]")
        elif rc != 0 or not os.path.exists(sy):
            raise vlib.Inconclusive("syn text harness failed\n" + out[-2500:])
        for b in json.load(open(sy)):
            if b["equal"]:
                continue
            if "KF_SynTextInContent" in V.kf and b["prefix_until_syn_line"]:
                V.known("KF_SynTextInContent", b)
            else:
                V.violation("plain mode: a file with a line beginning like a control message is not reproduced", b)
        so = os.path.join(wd, "slow.json")
        rc, out = vlib.go_test(wd, "./internal/clients/connectors", OV, "TestC01SlowConsumer", env={"VERIF_OUT": so}, timeout=300)
        if rc != 0 or not os.path.exists(so):
            raise vlib.Inconclusive("slow consumer harness failed\n" + out[-2500:])
        slows = json.load(open(so))
        for slow in slows:
            if slow["problem"] or not slow["equal"]:
                V.violation("a consumer stalling for 3.8 s (%s file): output incomplete or altered" % slow["variant"], slow)
        nontriv = sum(1 for c in chosen if c["hasd"] or c["dot"] or c["toolong"] or c["exp"] != c["f"])
        # end-to-end over the real SSH transport (real dserver processes, real client binary), free-running
        ssh_runs = e2e.stage_fidelity(wd, V, rng, tier)
        log("SSH stage: %d client runs against real dserver processes" % ssh_runs)
        cov = {"ssh_plain_runs": ssh_runs, "states": r.distinct, "transitions": r.generated, "traces_validated_against_impl": len(recs),
               "evaluations": res["evaluations"] + len(recs) + 1, "distinct_nontrivial": nontriv,
               "rule": "cases = every file up to CaseLen bytes over 5 byte classes x MaxLineLength {2,3,6} x transport buffer {4,20} x plain/"
                       "non-plain (all below CaseLen, a seeded sample at CaseLen), concretised per case index; non-trivial = contains 0xAC, "
                       "a line starting with '.', a frame longer than the buffer, or a line that must be split",
               "exhaustive": tier == "thorough", "samples": [chosen[len(chosen) // 2], recs[0]], "maxlen": maxlen, "caselen": caselen}
        return V.finish(cov, ["ordinary bytes are treated alike by the code (only '\\n', 0xAC, '.', ';' are special): sampled from a pool, not proved",
                              "gzip/zstd codecs are trusted", "the SSH transport variant is part of the C14/C02 harness, not of this check"])
