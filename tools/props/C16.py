"""C16 - no message content can crash the client; colouring never alters text.

spec/ClientMsg.tla: message shapes (prefix x number of fields x last field x newline) x handler x colour mode; Impl marks
where the code indexes by position (Crashed), Paint/Strip as sequence operators (Lossless).  (A) every shape enumerated by
TLC is concretised and written to the real ClientHandler, MaprHandler and HealthHandler in both colour modes (panic =
crash; coloured output minus escape sequences must equal the uncoloured output); (B) random byte streams with arbitrary
chunking."""
import json
import os

import vlib
from vlib import log

PID = "C16"
OV = {"internal/clients/handlers/vcommon_test.go": ("common/vcommon_test.go", "handlers"),
      "internal/clients/handlers/c16_test.go": "chandlers/c16_test.go"}


def run(tier, replay):
    V = vlib.Verdict(PID, tier)
    kf_short = "KF_ShortRecordColour" in V.kf
    kf_mapr = "KF_MaprEmptyMessage" in V.kf
    with vlib.Scratch(PID) as wd:
        cfg = ("SPECIFICATION Spec\nCONSTANTS\n MsgPrefixes <- MCPrefixes\n MaxFields = 7\n LastFields <- MCLast\n"
               " KF_ShortRecordColour = %s\n KF_MaprEmptyMessage = %s\nINVARIANTS OnlyKnownCrashes Lossless%s\n" %
               ("TRUE" if kf_short else "FALSE", "TRUE" if kf_mapr else "FALSE", "" if (kf_short or kf_mapr) else " NeverCrashes"))
        r = vlib.tlc(wd, "MC_ClientMsg", "G.cfg", files={"G.cfg": cfg}, timeout=1200)
        if not r.ok:
            raise vlib.Inconclusive("TLC ClientMsg: %s %s" % (r.violated, (r.error or "")[-1500:]))
        log("TLC ClientMsg: %d states" % r.distinct)
        cases = vlib.read_ndjson(os.path.join(wd, "c16_cases.ndjson"))
        cj, oj = os.path.join(wd, "cases.json"), os.path.join(wd, "out.json")
        json.dump(cases, open(cj, "w"))
        rc, out = vlib.go_test(wd, "./internal/clients/handlers", OV, "TestC16Replay", env={"VERIF_CASES": cj, "VERIF_OUT": oj}, timeout=1800)
        if rc != 0 and vlib.died_in_dtail(out) >= 0:
            i = vlib.died_in_dtail(out)
            V.violation("the client process died handling a message: " + out[i:i + 100].splitlines()[0], {"output": out[i:i + 1500]})
            return V.finish({"states": r.distinct, "transitions": r.generated, "traces_validated_against_impl": 0, "evaluations": 0, "distinct_nontrivial": 0, "rule": "the run ended with the death of the client process", "exhaustive": False, "samples": []}, [])
        if rc != 0 or not os.path.exists(oj):
            raise vlib.Inconclusive("harness failed (a panic outside recover kills it)\n" + out[-2500:])
        res = json.load(open(oj))
        need = {"REMOTE": 6, "CLIENT": 3, "SERVER": 3}
        for b in res["bad"] or []:
            c = b["case"]
            if b["problem"].startswith("panic") and kf_short and b["colour"] and c["nfields"] < need.get(c["prefix"], 1):
                V.known("KF_ShortRecordColour", b)
            elif b["problem"].startswith("panic") and kf_mapr and b["handler"] == "mapr" and "index out of range [0] with length 0" in b["problem"]:
                V.known("KF_MaprEmptyMessage", b)
            else:
                V.violation(b["problem"] + " (handler %s, colour %s)" % (b["handler"], b["colour"]), b)
        agg = vlib.read_ndjson(os.path.join(wd, "c16_agg.ndjson"))
        aj, ao = os.path.join(wd, "agg.json"), os.path.join(wd, "aggout.json")
        json.dump(agg, open(aj, "w"))
        rc, out = vlib.go_test(wd, "./internal/clients/handlers", OV, "TestC16Agg", env={"VERIF_CASES": aj, "VERIF_OUT": ao}, timeout=600)
        if rc != 0 and vlib.died_in_dtail(out) >= 0:
            i = vlib.died_in_dtail(out)
            V.violation("the client process died handling a message: " + out[i:i + 100].splitlines()[0], {"output": out[i:i + 1500]})
            return V.finish({"states": r.distinct, "transitions": r.generated, "traces_validated_against_impl": 0, "evaluations": 0, "distinct_nontrivial": 0, "rule": "the run ended with the death of the client process", "exhaustive": False, "samples": []}, [])
        if rc != 0 or not os.path.exists(ao):
            raise vlib.Inconclusive("aggregate payload harness failed\n" + out[-2500:])
        ares = json.load(open(ao))
        for b in ares["bad"] or []:
            V.violation("AGGREGATE payload: " + b["problem"][:200], b)
        to = os.path.join(wd, "table.json")
        rc, out = vlib.go_test(wd, "./internal/clients/handlers", OV, "TestC16Table", env={"VERIF_OUT": to}, timeout=600)
        if rc != 0 and vlib.died_in_dtail(out) >= 0:
            i = vlib.died_in_dtail(out)
            V.violation("the client process died handling a message: " + out[i:i + 100].splitlines()[0], {"output": out[i:i + 1500]})
            return V.finish({"states": r.distinct, "transitions": r.generated, "traces_validated_against_impl": 0, "evaluations": 0, "distinct_nontrivial": 0, "rule": "the run ended with the death of the client process", "exhaustive": False, "samples": []}, [])
        if rc != 0 or not os.path.exists(to):
            raise vlib.Inconclusive("result table harness failed\n" + out[-2500:])
        for b in json.load(open(to))["bad"] or []:
            V.violation("mapreduce result table: the coloured table minus its escape sequences differs from the uncoloured one", b)
        so = os.path.join(wd, "sout.json")
        rc, out = vlib.go_test(wd, "./internal/clients/handlers", OV, "TestC16Streams",
                               env={"VERIF_OUT": so, "VERIF_N": 150 if tier == "quick" else 20000}, timeout=1800)
        if rc != 0 and vlib.died_in_dtail(out) >= 0:
            i = vlib.died_in_dtail(out)
            V.violation("the client process died handling a message: " + out[i:i + 100].splitlines()[0], {"output": out[i:i + 1500]})
            return V.finish({"states": r.distinct, "transitions": r.generated, "traces_validated_against_impl": 0, "evaluations": 0, "distinct_nontrivial": 0, "rule": "the run ended with the death of the client process", "exhaustive": False, "samples": []}, [])
        if rc != 0 or not os.path.exists(so):
            raise vlib.Inconclusive("stream harness failed\n" + out[-2500:])
        sres = json.load(open(so))
        for b in sres["bad"] or []:
            if b["problem"].find("panic") >= 0 and (kf_short or kf_mapr):
                V.known("KF_ShortRecordColour" if "colour=true" in b["problem"] and kf_short else "KF_MaprEmptyMessage", b)
            else:
                V.violation("random stream: " + b["problem"], b)
        nontriv = sum(1 for c in cases if c["nfields"] < need.get(c["prefix"], 1) or c["prefix"] in ("", "A", "AGGREGATE", "."))
        cov = {"states": r.distinct, "transitions": r.generated, "traces_validated_against_impl": len(cases),
               "evaluations": res["evaluations"] + sres["evaluations"] + ares["evaluations"], "aggregate_payload_shapes": len(agg), "distinct_nontrivial": nontriv,
               "rule": "cases = 9 prefixes x 1..7 fields x 12 kinds of last field x newline (TLC), each x 3 handlers x 2 colour modes; plus AGGREGATE "
                       "payload shapes (3 sample counts x part sequences up to 3 over kv/bare/empty/kvkv x trailing delimiter) through the mapr handler; "
                       "non-trivial = fewer fields than the painter indexes, or an empty/aggregate/hidden prefix",
               "exhaustive": True, "samples": cases[3:5] + [{"random_streams": sres["evaluations"]}]}
        return V.finish(cov, ["escape sequences are removed from both renderings before comparing, so content that itself carries ESC codes cannot raise a false alarm",
                              "the handlers are driven through Write(); the stdout logger is the real one"])
