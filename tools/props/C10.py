"""C10 - no client-supplied bytes can crash the server.

spec/Dispatch.tla: the command envelope, option parsing, dispatch and argument indexing with Go's slice semantics
(an index beyond the length is the state Crashed); TLC enumerates the abstract command alphabet (about 2000 commands)
and reports which ones crash the as-is design.  (A) every command is concretised into bytes and written to a real
ServerHandler in a child process next to a well-behaved session; a dead child is attributed to the single command."""
import json
import os

import vlib
from vlib import log

PID = "C10"
OV = {"internal/server/handlers/vcommon_test.go": ("common/vcommon_test.go", "handlers"),
      "internal/server/handlers/c10_test.go": "handlers/c10_test.go"}
KFS = ["KF_ReadTooFewArgs", "KF_MapEmptyQuery", "KF_AckTooFewArgs", "KF_HugeBefore"]


def kf_of(c):
    cmd = c["cmd"]
    if cmd["word"] in ("cat", "grep", "tail") and cmd["nargs"] < 2:
        return "KF_ReadTooFewArgs"
    if cmd["word"] == "map" and cmd["query"] in ("empty", "blank"):
        return "KF_MapEmptyQuery"
    if cmd["word"] == ".ack" and cmd["nargs"] < 3:
        return "KF_AckTooFewArgs"
    if cmd["opts"] == "hugebefore":
        return "KF_HugeBefore"
    return None


def run(tier, replay):
    V = vlib.Verdict(PID, tier)
    open_kfs = {k: (k in V.kf) for k in KFS}
    with vlib.Scratch(PID) as wd:
        mc = "---- MODULE GDisp ----\nEXTENDS DispatchCases\n====\n"
        cfg = "SPECIFICATION Spec\nCONSTANTS\n" + "".join(" %s = %s\n" % (k, "TRUE" if v else "FALSE") for k, v in open_kfs.items())
        if not any(open_kfs.values()):
            cfg += "INVARIANT NeverCrashes\n"
        r = vlib.tlc(wd, "GDisp", "GDisp.cfg", files={"GDisp.tla": mc, "GDisp.cfg": cfg}, timeout=1200)
        if not r.ok:
            raise vlib.Inconclusive("TLC Dispatch: %s %s" % (r.violated, (r.error or "")[-1500:]))
        cases = vlib.read_ndjson(os.path.join(wd, "c10_cases.ndjson"))
        log("TLC Dispatch: %d commands, %d crash the design model (open deviations: %s)" %
            (len(cases), sum(1 for c in cases if c["crash"]), [k for k, v in open_kfs.items() if v]))
        if tier == "quick":
            import random
            rng = random.Random(vlib.seed())
            basic_files = ("existing", "missing", "directory", "emptyglob")
            must = [c for c in cases if c["crash"] or c["cmd"]["env"] != "ok" or c["cmd"]["word"] not in ("cat", "grep", "tail")
                    or (c["cmd"]["file"] not in basic_files and c["cmd"]["opts"] == "none")]
            rest = [c for c in cases if c not in must]
            rng.shuffle(rest)
            cases = must[:500] + rest[:350]
        cj, oj = os.path.join(wd, "cases.json"), os.path.join(wd, "out.json")
        json.dump(cases, open(cj, "w"))
        rc, out = vlib.go_test(wd, "./internal/server/handlers", OV, "TestC10Parent", env={"VERIF_CASES": cj, "VERIF_OUT": oj}, timeout=3400)
        if rc != 0 or not os.path.exists(oj):
            raise vlib.Inconclusive("harness failed\n" + out[-2500:])
        res = json.load(open(oj))
        # sequences of commands in one session (map + a follow whose reader comes back, ...)
        so = os.path.join(wd, "seq.json")
        rc, out = vlib.go_test(wd, "./internal/server/handlers", OV, "TestC10Sequences", env={"VERIF_OUT": so}, timeout=600)
        if rc != 0 and vlib.died_in_dtail(out) >= 0:
            i = vlib.died_in_dtail(out)
            V.violation("the server process died during a sequence of commands in one session: " + out[i:i + 100].splitlines()[0], {"output": out[i:i + 1800]})
        elif rc != 0 or not os.path.exists(so):
            raise vlib.Inconclusive("sequence harness failed\n" + out[-2500:])
        notrun = 0
        for c, rr in zip(cases, res["results"]):
            if rr["outcome"] == "notrun":
                notrun += 1
                continue
            if rr["outcome"] == "crash":
                kf = kf_of(c)
                desc = {"cmd": c["cmd"], "wire": rr["wire"], "payload": rr["payload"], "detail": rr["detail"]}
                if kf and open_kfs.get(kf) and c["crash"]:
                    V.known(kf, desc)
                else:
                    V.violation("the server process died on a client command: " + (rr["detail"] or "")[:200], desc)
            elif c["crash"]:
                V.diverge("model predicts a crash, the real server survived: %s" % json.dumps(c["cmd"]))
        if notrun > len(cases) // 20:
            raise vlib.Inconclusive("%d commands were not run" % notrun)
        # the well-behaved session: the last child must have delivered the whole file
        good = res.get("good") or []
        for g in good:
            parts = g.split()
            if int(parts[1]) != 5000 or parts[2] != "true":
                V.violation("a well-behaved concurrent session did not receive its file completely: " + g, {"good": good})
                break
        nontriv = sum(1 for c in cases if c["cmd"]["env"] != "ok" or c["answer"] == "error" or c["crash"])
        cov = {"states": r.distinct, "transitions": r.generated, "traces_validated_against_impl": len(cases) - notrun,
               "evaluations": len(cases) - notrun, "distinct_nontrivial": nontriv,
               "rule": "cases = abstract commands of spec/Dispatch.tla (envelope x command word x options x argument count x regex field "
                       "x query x file kind), concretised per seed; non-trivial = malformed envelope, a command the model answers with an "
                       "error, or one the model predicts to crash",
               "exhaustive": tier == "thorough", "child_processes": res["children"],
               "samples": [res["results"][5], res["results"][len(cases) // 2]]}
        return V.finish(cov, ["'all byte strings' is covered as classes with sampled byte-level representatives, not as 256^n",
                              "a crash is observed as the death of the child process hosting the server handlers"])
