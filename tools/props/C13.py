"""C13 - concurrent file reads never exceed the configured limits.

spec/Limiter.tla (+ LimiterSched, LimiterTrace).  Pipeline:
 1. TLC exhaustive on the strict model: NeverOverLimit, TokensMatch, EveryReadEnds, NoSlotLeft.
 2. TLC (LimiterSched) enumerates every complete controllable schedule with the observation predicted
    at each quiescent point; schedules are replayed into real ServerHandlers sharing one limiter.
 3. Verdict from hook-free observations of the real code (len(limiter), files open in /proc/self/fd,
    lines delivered, reads that never end) against Ref.
 4. The vhook traces of all replays are validated by TLC against LimiterTrace (binding).
"""
import json
import os
import random

import e2e
import vlib
from vlib import log

PID = "C13"
OVERLAY = {
    "internal/server/handlers/vcommon_test.go": ("common/vcommon_test.go", "handlers"),
    "internal/server/handlers/c13_test.go": "handlers/c13_test.go",
}


def mc_module(base, name, nreads, sess, fails, rot=()):
    reads = "{" + ", ".join(str(i) for i in range(1, nreads + 1)) + "}"
    sessf = "<<" + ", ".join(str(s) for s in sess) + ">>"
    failss = "{" + ", ".join(str(f) for f in fails) + "}"
    rots = "{" + ", ".join(str(f) for f in rot) + "}"
    return ("---- MODULE %s ----\nEXTENDS %s\nGReads == %s\nGSess == %s\nGFails == %s\nGRot == %s\n====\n"
            % (name, base, reads, sessf, failss, rots))


def cfg(spec, cap, kf, extra_consts="", invariants="", props=""):
    s = "SPECIFICATION %s\nCONSTANTS\n  Reads <- GReads\n  Cap = %d\n  SessOf <- GSess\n  Fails <- GFails\n  Rotatable <- GRot\n" % (spec, cap)
    s += "  KF_CancelDrainsToken = %s\n%s" % ("TRUE" if kf else "FALSE", extra_consts)
    if invariants:
        s += "INVARIANTS %s\n" % invariants
    if props:
        s += "PROPERTIES %s\n" % props
    return s


def gen_schedules(wd, nreads, cap, sess, fails, kf, maxcancel, maxrotate=0):
    rot = list(range(1, nreads + 1)) if maxrotate else []
    files = {"GSched.tla": mc_module("LimiterSched", "GSched", nreads, sess, fails, rot),
             "GSched.cfg": cfg("SSpec", cap, kf, "  MaxCancel = %d\n  MaxRotate = %d\n" % (maxcancel, maxrotate), "Emit")}
    r = vlib.tlc(wd, "GSched", "GSched.cfg", workers=4, files=files, timeout=900)
    if not r.ok:
        raise vlib.Inconclusive("schedule generation failed: %s %s" % (r.violated, (r.error or "")[-800:]))
    scheds = {}
    for line in r.out.splitlines():
        if line.startswith('"{'):
            h = json.loads(json.loads(line))
            key = tuple((s["a"], s["id"]) for s in h["steps"])
            obs = [(s["obs"]["tokens"], s["obs"]["open"], s["obs"]["retrying"]) for s in h["steps"]] + [(h["final"]["tokens"], h["final"]["open"], h["final"]["retrying"])]
            waiting = [s["obs"]["waiting"] for s in h["steps"]]
            e = scheds.setdefault(key, {"allowed": [set() for _ in obs], "waitcancel": False})
            for i, o in enumerate(obs):
                e["allowed"][i].add(o)
            # non-trivial: a cancel hits a session while one of its reads is queued behind the limiter
            for i, s in enumerate(h["steps"]):
                if s["a"] == "cancel" and waiting[i] > 0:
                    e["waitcancel"] = True
                if s["a"] == "rotate" and waiting[i] > 0:
                    e["rotwait"] = True      # a follow loses its file while another read is queued behind it
    return scheds, r


def run(tier, replay):
    V = vlib.Verdict(PID, tier)
    rng = random.Random(vlib.seed())
    kf_open = "KF_CancelDrainsToken" in V.kf
    states = transitions = 0
    tlc_runs = []
    with vlib.Scratch(PID) as wd:
        # ---- 1. exhaustive model checking of the strict design
        if tier == "quick":
            mc_cfgs = [(3, 1, [1, 2, 3], []), (3, 2, [1, 2, 3], [2]), (3, 1, [1, 1, 2], [])]
        else:
            mc_cfgs = [(4, 1, [1, 2, 3, 4], []), (4, 2, [1, 2, 3, 4], [2]), (4, 2, [1, 1, 2, 3], []),
                       (5, 2, [1, 2, 3, 4, 5], [3]), (4, 3, [1, 1, 2, 2], [4])]
        for i, (n, cap, sess, fails) in enumerate(mc_cfgs):
            files = {"GMC.tla": mc_module("Limiter", "GMC", n, sess, fails),
                     "GMC.cfg": cfg("Spec", cap, False, "", "TypeOK NeverOverLimit TokensMatch", "EveryReadEnds NoSlotLeft")}
            r = vlib.tlc_must_pass(wd, "GMC", "GMC.cfg", files=files, timeout=1200)
            states += r.distinct
            transitions += r.generated
            tlc_runs.append({"cfg": "strict n=%d cap=%d sess=%s fails=%s" % (n, cap, sess, fails), **r.as_dict()})
            log("TLC strict n=%d cap=%d: %d distinct states, ok" % (n, cap, r.distinct))
        # follows whose file is rotated away keep their slot in the retry loop (safety only: such a read ends only when cancelled)
        files = {"GMC.tla": mc_module("Limiter", "GMC", 3, [1, 2, 3], [], [1, 2, 3]),
                 "GMC.cfg": cfg("Spec", 1 if tier == "quick" else 2, False, "", "TypeOK NeverOverLimit TokensMatch")}
        r = vlib.tlc_must_pass(wd, "GMC", "GMC.cfg", files=files, timeout=1200)
        states += r.distinct
        transitions += r.generated
        tlc_runs.append({"cfg": "strict n=3 with rotation (retry loop)", **r.as_dict()})
        # the deviation model must show the defect at design level as long as the finding is open
        if kf_open:
            files = {"GMC.tla": mc_module("Limiter", "GMC", 3, [1, 2, 3], []),
                     "GMC.cfg": cfg("Spec", 1, True, "", "TypeOK NeverOverLimit TokensMatch")}
            r = vlib.tlc(wd, "GMC", "GMC.cfg", files=files, timeout=600)
            tlc_runs.append({"cfg": "kf n=3 cap=1", **r.as_dict()})
            if r.violated != "TokensMatch":
                raise vlib.Inconclusive("KF model does not show the deviation: %s" % r.violated)

        # ---- 2. schedules from TLC
        # the last two entries of each list: sessions with several reads - as separate commands, and as the files of one glob
        if tier == "quick":
            gens = [(3, 1, [1, 2, 3], [], 2, "cat", 90), (3, 1, [1, 2, 3], [2], 1, "grep", 50), (3, 2, [1, 2, 3], [], 3, "tail", 20),
                    (4, 2, [1, 2, 2, 3], [], 1, "cat", 30), (4, 2, [1, 2, 2, 3], [], 1, "catglob", 40), (3, 1, [1, 2, 3], [], 3, "tailrot", 8)]
        else:
            gens = [(3, 1, [1, 2, 3], [], 3, "cat", 100000), (3, 1, [1, 2, 3], [2], 2, "grep", 100000),
                    (3, 1, [1, 2, 3], [1, 3], 1, "cat", 100000),
                    (4, 2, [1, 2, 3, 4], [3], 1, "cat", 700), (4, 1, [1, 2, 3, 4], [2], 1, "cat", 700),
                    (3, 2, [1, 2, 3], [], 3, "tail", 200), (4, 1, [1, 2, 3, 4], [], 2, "tail", 200),
                    (4, 2, [1, 2, 2, 3], [], 2, "cat", 400), (4, 2, [1, 2, 2, 3], [], 2, "catglob", 400), (4, 1, [1, 1, 2, 2], [], 2, "catglob", 300),
                    (4, 2, [1, 2, 2, 3], [], 2, "tailglob", 150),
                    (3, 1, [1, 2, 3], [], 3, "tailrot", 60), (3, 2, [1, 2, 3], [], 3, "tailrot", 60)]
        cases = []
        meta = {}
        nsched_total = 0
        for gi, (n, cap, sess, fails, maxc, mode, limit) in enumerate(gens):
            rotate = mode.endswith("rot")
            mode = mode.replace("rot", "")
            ref, r = gen_schedules(wd, n, cap, sess, fails, False, maxc, 1 if rotate else 0)
            states += r.distinct
            transitions += r.generated
            impl = None
            if kf_open:
                impl, r2 = gen_schedules(wd, n, cap, sess, fails, True, maxc, 1 if rotate else 0)
            keys = sorted(ref.keys())
            glob = mode.endswith("glob")
            mode = mode.replace("glob", "")
            if mode == "tail":
                keys = [k for k in keys if not any(a == "finish" for a, _ in k)]
            if rotate:
                keys = [k for k in keys if any(a == "rotate" for a, _ in k)]
                pref = [k for k in keys if ref[k].get("rotwait")]
                if len(pref) >= limit:
                    keys = pref
            multi = {s_ for s_ in sess if sess.count(s_) > 1}
            if multi:
                # draining is per session: a single read of a session with several reads cannot be finished on its own
                keys = [k for k in keys if not any(a == "finish" and sess[i - 1] in multi for a, i in k)]
            if glob:
                # the files of one command enter together: the enter steps of a session must be contiguous
                def contiguous(k):
                    seen, last = set(), None
                    for a, i in k:
                        cur = sess[i - 1] if a == "enter" else None
                        if cur is not None and cur != last and cur in seen:
                            return False
                        if cur is not None:
                            seen.add(cur)
                        last = cur
                    return True
                keys = [k for k in keys if contiguous(k)]
            nsched_total += len(keys)
            nontrivial = [k for k in keys if ref[k]["waitcancel"] or any(i in fails for a, i in k if a == "enter")]
            trivial = [k for k in keys if k not in set(nontrivial)]
            rng.shuffle(nontrivial)
            rng.shuffle(trivial)
            chosen = nontrivial[:max(1, (limit * 3) // 4)]
            chosen += trivial[:max(0, limit - len(chosen))]
            for k in chosen:
                cid = len(cases) + 1
                cases.append({"id": cid, "cap": cap, "mode": mode, "sessof": sess, "fails": fails,
                              "steps": [{"a": a, "id": i} for a, i in k], "lines": 400,
                              "names": rng.randrange(1 << 30), "glob": glob})
                meta[cid] = {"gen": gi, "key": k, "ref": ref[k]["allowed"],
                             "impl": impl[k]["allowed"] if impl and k in impl else None,
                             "nontrivial": k in set(nontrivial) or rotate, "n": n, "cap": cap, "sess": sess, "fails": fails, "mode": mode,
                             "rot": list(range(1, n + 1)) if rotate else []}
            log("schedules n=%d cap=%d fails=%s mode=%s: %d complete schedules from TLC, %d replayed" %
                (n, cap, fails, mode, len(keys), len(chosen)))

        # ---- 3. replay into the real handlers
        cpath = os.path.join(wd, "cases.json")
        opath = os.path.join(wd, "out.json")
        json.dump(cases, open(cpath, "w"))
        rc, out = vlib.go_test(wd, "./internal/server/handlers", OVERLAY, "TestC13Replay",
                               env={"VERIF_CASES": cpath, "VERIF_OUT": opath}, timeout=3000)
        if rc != 0 or not os.path.exists(opath):
            raise vlib.Inconclusive("replay harness failed rc=%s\n%s" % (rc, out[-3000:]))
        results = json.load(open(opath))
        byid = {c["id"]: c for c in cases}
        traces = {}
        problems = 0
        suspects = []
        for res in results:
            c = byid[res["id"]]
            m = meta[res["id"]]
            if res.get("problem"):
                problems += 1
                continue
            obs = [(o["tokens"], o["open"], o.get("retrying", 0)) for o in res["obs"]]
            bad = []
            if res["maxopen"] > c["cap"]:
                bad.append("more files open (%d) than the limit (%d)" % (res["maxopen"], c["cap"]))
            # every file being read owns a slot and no slot is owned by nobody; a follow in its retry loop (file rotated
            # away) may or may not keep its slot while it sleeps - the statement does not say, the code keeps it
            for i, (tok, op, rt) in enumerate(obs):
                if not (op <= tok <= op + rt):
                    bad.append("step %d: len(limiter)=%d but %d file(s) being read and %d read(s) in the retry loop" % (i, tok, op, rt))
                    break
            if obs and obs[-1][:2] != (0, 0):
                bad.append("at the end: len(limiter)=%d, files open=%d" % obs[-1][:2])
            if res.get("stuck"):
                bad.append("reads never finished: %s" % res["stuck"])
            if res.get("hung"):
                bad.append("ending session(s) %s from outside (the connection is gone) did not return within 5 s" % res["hung"])
            if c["mode"] != "tail":
                cancelled = {s["id"] for s in c["steps"] if s["a"] == "cancel"}
                for s in c["steps"]:
                    if s["a"] == "enter" and c["sessof"][s["id"] - 1] not in cancelled and s["id"] not in c["fails"]:
                        got = res["delivered"].get(str(s["id"]), 0)
                        if got != c["lines"]:
                            bad.append("read %d delivered %d of %d lines" % (s["id"], got, c["lines"]))
            # in a glob case the reads of a session enter together: the observations between its enter steps are not comparable
            skip = set()
            if c.get("glob"):
                for i in range(1, len(c["steps"])):
                    a, b = c["steps"][i - 1], c["steps"][i]
                    if a["a"] == "enter" and b["a"] == "enter" and c["sessof"][a["id"] - 1] == c["sessof"][b["id"] - 1]:
                        skip.add(i)
            div = res.get("diverged")
            if div:
                # the real run left the TLC behaviour; the last observation is the final one (after the epilogue)
                V.diverge("case %d: %s" % (res["id"], div))
                pre = obs[:-1]
                in_ref = all(o in m["ref"][i] for i, o in enumerate(pre) if i not in skip)
                in_impl = m["impl"] is not None and all(o in m["impl"][i] for i, o in enumerate(pre) if i not in skip)
            else:
                in_ref = all(o in m["ref"][i] for i, o in enumerate(obs) if i not in skip) if len(obs) == len(m["ref"]) else False
                in_impl = m["impl"] is not None and len(obs) == len(m["impl"]) and all(o in m["impl"][i] for i, o in enumerate(obs) if i not in skip)
            res["_bad"], res["_in_ref"], res["_in_impl"] = bad, in_ref, in_impl
            traces[res["id"]] = res["trace"]
            if bad:
                suspects.append(res)
            elif not in_ref:
                V.diverge("case %d: observations %s outside the model's prediction %s" % (res["id"], obs, [sorted(x) for x in m["ref"]]))
        if problems > max(2, len(results) // 10):
            raise vlib.Inconclusive("%d of %d replays had harness trouble" % (problems, len(results)))

        # ---- 4. trace validation (groups by configuration)
        groups = {}
        for cid, tr in traces.items():
            m = meta[cid]
            groups.setdefault((m["n"], m["cap"], tuple(m["sess"]), tuple(m["fails"]), tuple(m.get("rot") or ())), []).append(cid)
        accepted_strict, accepted_kf = set(), set()
        validated = 0
        for (n, cap, sess, fails, rot), cids in sorted(groups.items()):
            recs = []
            for cid in cids:
                evs = [{"ev": e["ev"], "id": int(e.get("r", e.get("s", 0))), "took": int(e.get("took", 0) or 0)} for e in traces[cid]]
                recs.append({"id": cid, "ev": evs})
            # binding self-test: a copy of one trace without its first "acquired" event must be rejected
            probe = None
            for rc_ in recs:
                idx = [i for i, e in enumerate(rc_["ev"]) if e["ev"] == "acquired"]
                if idx and any(e["ev"] == "relbegin" and e["id"] == rc_["ev"][idx[0]]["id"] for e in rc_["ev"]):
                    probe = {"id": 1000000 + rc_["id"], "ev": [e for i, e in enumerate(rc_["ev"]) if i != idx[0]]}
                    break
            if probe:
                recs = recs + [probe]
            vlib.write_ndjson(os.path.join(wd, "c13_traces.ndjson"), recs)
            for kf in ([False, True] if kf_open else [False]):
                files = {"GTrace.tla": mc_module("LimiterTrace", "GTrace", n, list(sess), list(fails), list(rot)),
                         "GTrace.cfg": cfg("TSpec", cap, kf, "", "Report")}
                r = vlib.tlc(wd, "GTrace", "GTrace.cfg", files=files, timeout=1200)
                if not r.ok:
                    raise vlib.Inconclusive("trace validation run failed: %s %s" % (r.violated, (r.error or "")[-800:]))
                states += r.distinct
                transitions += r.generated
                for line in r.out.splitlines():
                    if line.startswith('<<"ACCEPTED"'):
                        parts = line.strip("<>").split(",")
                        cid = int(parts[1])
                        if cid >= 1000000:
                            raise vlib.Inconclusive("LimiterTrace accepts a trace without the acquisition event: the trace spec does not bind")
                        okflag = parts[2].strip() == "TRUE"
                        if not kf:
                            accepted_strict.add(cid)
                        else:
                            accepted_kf.add((cid, okflag))
            validated += len(cids)
        # ---- verdicts
        kf_cids = {c for c, _ in accepted_kf}
        for res in suspects:
            cid = res["id"]
            case = {"case": byid[cid], "observed": res["obs"], "maxopen": res["maxopen"], "bad": res["_bad"],
                    "stuck": res.get("stuck"), "trace": res["trace"]}
            if kf_open and cid not in accepted_strict and cid in kf_cids and res["_in_impl"]:
                V.known("KF_CancelDrainsToken", case)
            else:
                V.violation("; ".join(res["_bad"]), case)
        rejected = [cid for cid in traces if cid not in accepted_strict and cid not in kf_cids]
        for cid in rejected:
            if not any(s["id"] == cid for s in suspects):
                V.diverge("case %d: trace not accepted by LimiterTrace although Ref holds on the observations" % cid)
        sample = None
        for res in results:
            if meta[res["id"]]["nontrivial"] and not res.get("problem"):
                sample = {"case": byid[res["id"]], "observed": res["obs"], "trace": res["trace"][:40]}
                break
        # the limits as configured reach the limiters: real dserver and the serverless connector (free-running, judged from the output)
        wiring_runs = e2e.stage_limits(wd, V, rng, tier)
        log("limit wiring: %d client runs (serverless and over SSH) with MaxConcurrentCats below the number of files" % wiring_runs)
        sched_runs = e2e.stage_scheduled(wd, V)
        log("scheduled job holding the only cat slot (named pipe) against a dcat session: %d run" % sched_runs)
        # the slots of a session come back when its connection ends, whatever was done on it (real server, bare SSH client)
        wov = {"internal/server/vcommon_test.go": ("common/vcommon_test.go", "server"),
               "internal/server/c14_test.go": "server/c14_test.go", "internal/server/c13_wire_test.go": "server/c13_wire_test.go"}
        wo = os.path.join(wd, "wire.json")
        rc, out = vlib.go_test(wd, "./internal/server", wov, "TestC13Wire", env={"VERIF_OUT": wo}, timeout=900)
        if rc != 0 or not os.path.exists(wo):
            raise vlib.Inconclusive("C13 wire harness failed\n" + out[-2000:])
        wire = json.load(open(wo))
        for w in wire:
            if w.get("bad"):
                V.violation(w["bad"], w)
            elif w.get("problem"):
                V.diverge("wire case %s could not be run: %s" % (w["case"], w["problem"]))
        log("session endings over SSH (MaxConcurrentTails = 1): %s" % ", ".join("%s:%s" % (w["case"], "bad" if w.get("bad") else "problem" if w.get("problem") else "ok") for w in wire))
        cov = {"limit_wiring_runs": wiring_runs, "scheduled_job_runs": sched_runs, "session_endings_over_ssh": wire,
            "states": states, "transitions": transitions,
            "traces_validated_against_impl": validated,
            "traces_accepted_by_strict_model": len(accepted_strict),
            "traces_explained_only_by_named_deviation": len(kf_cids - accepted_strict),
            "evaluations": len(results),
            "distinct_nontrivial": sum(1 for c in cases if meta[c["id"]]["nontrivial"]),
            "rule": "cases = complete controllable schedules (enter/cancel/finish) enumerated by TLC from LimiterSched; "
                    "distinct by schedule; non-trivial = a session is cancelled while one of its reads is queued behind "
                    "the limiter, or a read whose file cannot be opened takes part",
            "schedules_enumerated_by_tlc": nsched_total,
            "exhaustive": tier == "thorough",
            "samples": [sample] if sample else [cases[0]],
            "tlc_runs": tlc_runs,
            "harness_inconclusive_cases": problems,
        }
        assumptions = [
            "quiescence is detected by 'no new trace event for 24 ms'",
            "a file being read = an fd of the process pointing to the test file (/proc/self/fd)",
            "the SSH transport is not involved: sessions are real ServerHandlers driven through Write/Read",
        ]
        return V.finish(cov, assumptions)
