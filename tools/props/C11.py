"""C11 - valid queries parse to the structure they denote; invalid ones are rejected.

spec/Query.tla: the documented grammar as a generator with denotations (51 clause alternatives, any clause order) and
the token-level part of the parser transcribed (clause boundaries, tokensConsume's treatment of empty and back-quoted
tokens); TLC checks ClauseStructureRight over every derivation.  (A) every derivation is rendered in several surface
variations and parsed with the real mapr.NewQuery; every field is compared with the denotation."""
import json
import os
import random

import vlib
from vlib import log

PID = "C11"
OV = {"internal/mapr/vcommon_test.go": ("common/vcommon_test.go", "mapr"),
      "internal/mapr/c11_test.go": "mapr/c11_test.go"}


def run(tier, replay):
    V = vlib.Verdict(PID, tier)
    kf_empty = "KF_EmptyStringDropped" in V.kf
    kf_bq = "KF_LoneBackquote" in V.kf
    kf_int = "KF_IntervalWithoutNumber" in V.kf
    maxc = 3 if tier == "quick" else 4
    casec = 2 if tier == "quick" else 3
    with vlib.Scratch(PID) as wd:
        cfg = ("SPECIFICATION Spec\nCONSTANTS\n Alts <- MCAlts\n MaxClauses = %d\n CaseClauses = %d\n KF_EmptyStringDropped = %s\n"
               " KF_LoneBackquote = %s\nINVARIANTS ClauseStructureRight%s\n" %
               (maxc, casec, "TRUE" if kf_empty else "FALSE", "TRUE" if kf_bq else "FALSE", "" if kf_bq else " NeverCrashes"))
        r = vlib.tlc(wd, "MC_Query", "G.cfg", files={"G.cfg": cfg}, timeout=3000, heap="16g")
        if not r.ok:
            raise vlib.Inconclusive("TLC Query: %s %s" % (r.violated, (r.error or "")[-1500:]))
        log("TLC Query MaxClauses=%d: %d derivations, clause structure right" % (maxc, r.distinct))
        cases = vlib.read_ndjson(os.path.join(wd, "c11_cases.ndjson"))
        if len(cases) > 60000:
            cases = random.Random(vlib.seed()).sample(cases, 60000)
        cj, oj = os.path.join(wd, "cases.json"), os.path.join(wd, "out.json")
        json.dump(cases, open(cj, "w"))
        rc, out = vlib.go_test(wd, "./internal/mapr", OV, "TestC11Replay",
                               env={"VERIF_CASES": cj, "VERIF_OUT": oj, "VERIF_STYLES": 4 if tier == "quick" else 12}, timeout=3000)
        if rc != 0 or not os.path.exists(oj):
            raise vlib.Inconclusive("harness failed\n" + out[-2500:])
        res = json.load(open(oj))
        for b in res["bad"] or []:
            b["tags"] = b.get("tags") or []
            if "emptystr" in b["tags"] and kf_empty:
                V.known("KF_EmptyStringDropped", b)
            elif "lonebq" in b["tags"] and kf_bq and b["problem"].startswith("panic"):
                V.known("KF_LoneBackquote", b)
            elif "ibad0" in b["ids"] and kf_int and b["problem"] == "malformed query accepted" and \
                    not any(x.endswith("bad") or "bad" in x for x in b["ids"] if x != "ibad0"):
                V.known("KF_IntervalWithoutNumber", b)
            else:
                V.violation(b["problem"], b)
        nontriv = sum(1 for c in cases if c["valid"] and len(c["clauses"]) >= 2)
        cov = {"states": r.distinct, "transitions": r.generated, "traces_validated_against_impl": len(cases),
               "evaluations": res["evaluations"], "distinct_nontrivial": nontriv,
               "rule": "cases = every derivation of up to CaseClauses clauses (any order) over 51 clause alternatives incl. 21 malformed "
                       "ones, each rendered in several surface styles (keyword case, comma/blank, tab/newline/CRLF); non-trivial = a valid "
                       "query of at least two clauses",
               "exhaustive": True, "samples": [c["ids"] for c in cases if c["valid"] and len(c["clauses"]) == casec][:3] + [cases[1]],
               "maxclauses": maxc}
        return V.finish(cov, ["the grammar of doc/querylanguage.md is the generator; the alternatives table is finite (51 entries)",
                              "unbalanced double quotes and free-form mutations are outside the generated language"])
