"""C12 - the server applies exactly the filter and options the user specified.

spec/Codec.tla models the client's serialisation and every split/join of the server as sequence operators; TLC
checks RoundTrip for every regex string over {a,' ',':',';',',','%','=','|','é','.','*'} up to MaxLen, both flags,
four option sets in every order.  (A) every enumerated string (plus random longer patterns) is sent through a real
serverless GrepClient session end to end; (B) the records (match vector of the user's pattern compiled directly,
line numbers returned) are judged by TLC with GrepContext's RefOut."""
import json
import os

import vlib
from vlib import log

PID = "C12"
OV = {"internal/clients/vcommon_test.go": ("common/vcommon_test.go", "clients"),
      "internal/clients/c12_test.go": "clients/c12_test.go"}
ALPHA = '{"a", " ", ":", ";", ",", "%", "=", "|", "e9", ".", "*"}'


def run(tier, replay):
    V = vlib.Verdict(PID, tier)
    maxlen = 2 if tier == "quick" else 3
    with vlib.Scratch(PID) as wd:
        mc = "---- MODULE GCodec ----\nEXTENDS CodecCases\nMCA == %s\n====\n" % ALPHA
        cfg = "SPECIFICATION Spec\nCONSTANTS\n Alphabet <- MCA\n MaxLen = %d\nINVARIANTS RoundTrip SessionOK\n" % maxlen
        r = vlib.tlc(wd, "GCodec", "GCodec.cfg", files={"GCodec.tla": mc, "GCodec.cfg": cfg}, timeout=3000)
        if not r.ok:
            raise vlib.Inconclusive("TLC Codec: %s %s" % (r.violated, (r.error or "")[-1500:]))
        log("TLC Codec MaxLen=%d: %d states, RoundTrip holds" % (maxlen, r.distinct))
        cases = vlib.read_ndjson(os.path.join(wd, "c12_cases.ndjson"))
        cj, oj = os.path.join(wd, "cases.json"), os.path.join(wd, "out.json")
        json.dump(cases, open(cj, "w"))
        rc, out = vlib.go_test(wd, "./internal/clients", OV, "TestC12Run",
                               env={"VERIF_CASES": cj, "VERIF_OUT": oj, "VERIF_N": 60 if tier == "quick" else 2500}, timeout=3000)
        if rc != 0 or not os.path.exists(oj):
            raise vlib.Inconclusive("harness failed\n" + out[-2500:])
        res = json.load(open(oj))
        recs = res["records"]
        # (B) TLC judges the records with the C03 Ref
        vlib.write_ndjson(os.path.join(wd, "c03_records.ndjson"),
                          [{"id": x["id"], "file": x["file"], "kind": x["kind"], "b": x["b"], "a": x["a"], "m": x["m"], "out": x["out"]} for x in recs])
        mc2 = "---- MODULE GGrep ----\nEXTENDS GrepContextCases\nMCP == {0}\nMCK == {\"default\"}\n====\n"
        cfg2 = "SPECIFICATION Spec\nCONSTANTS\n N = 1\n P <- MCP\n Kinds <- MCK\nINVARIANT ImplIsRef\n"
        r2 = vlib.tlc(wd, "GGrep", "GGrep.cfg", files={"GGrep.tla": mc2, "GGrep.cfg": cfg2}, timeout=3000)
        if not r2.ok:
            raise vlib.Inconclusive("TLC record validation: %s %s" % (r2.violated, (r2.error or "")[-1500:]))
        bad_ids = vlib.printed_set(r2.out, "BADRECORDS")
        for x in recs:
            desc = {k: x[k] for k in ("id", "regex", "kind", "b", "a", "m", "plain", "quiet", "status", "note", "stray")}
            desc["lines_matching_user_pattern"] = sum(x["file"])
            desc["lines_returned"] = len(x["out"])
            desc["returned_head"] = x["out"][:12]
            if x["note"]:
                V.violation("client/server failed on a valid request: " + x["note"], desc)
            elif x["id"] in bad_ids:
                V.violation("the lines returned are not those the user's pattern and options select (RefOut by TLC)", desc)
            elif not x["modeok"]:
                V.violation("output mode differs from the requested one (plain/non-plain framing or content)", desc)
            elif x["status"] != 0:
                V.violation("session ended with status %d" % x["status"], desc)
        mj = os.path.join(wd, "mapr.json")
        # several files in one request: every file gets the pattern and the options
        tj = os.path.join(wd, "two.json")
        rc, out = vlib.go_test(wd, "./internal/clients", OV, "TestC12TwoFiles", env={"VERIF_OUT": tj}, timeout=300)
        if rc != 0 or not os.path.exists(tj):
            raise vlib.Inconclusive("multi-file harness failed\n" + out[-2000:])
        for tr in json.load(open(tj)):
            files = tr["multi"] or {}
            if tr["note"] or set(files) != {"probe.log", "second.log", "third.log"} and tr["single"] or any(sel != tr["single"] for sel in files.values()):
                V.violation("a request for three files: the selection differs from file to file or from the request for one file alone",
                            {k: tr[k] for k in ("regex", "invert", "b", "a", "m", "single", "note")} | {"per_file": {k: v[:12] for k, v in files.items()}})
        rc, out = vlib.go_test(wd, "./internal/clients", OV, "TestC12Mapr", env={"VERIF_OUT": mj}, timeout=300)
        if rc != 0 or not os.path.exists(mj):
            raise vlib.Inconclusive("mapr harness failed\n" + out[-2500:])
        for m in json.load(open(mj)):
            if m["note"]:
                V.violation("dmap session failed: " + m["note"], m)
            elif m["server_messages"] > 0:
                V.violation("serverless/quiet options of a dmap session were not applied by the server (SERVER messages delivered)", m)
            elif m["count"] != str(m["expected_count"]):
                V.violation("dmap session counted %s lines, the file has %d (after the MaxLineLength split)" % (m["count"], m["expected_count"]), m)
        nontriv = sum(1 for x in recs if any(c in x["regex"] for c in " :;,%=|é") and 0 < sum(x["file"]) < len(x["file"]))
        cov = {"states": r.distinct + r2.distinct, "transitions": r.generated + r2.generated,
               "traces_validated_against_impl": len(recs), "evaluations": len(recs), "distinct_nontrivial": nontriv,
               "rule": "cases = every regex string up to MaxLen over the 11-character alphabet (TLC) x both polarities, plus random "
                       "patterns from RE2 fragments; options drawn per seed; non-trivial = the pattern contains a character the "
                       "protocol splits on (or non-ASCII) and selects a proper non-empty subset of the probe file",
               "exhaustive": True, "skipped_invalid_patterns": res["skipped_invalid"],
               "samples": [{k: x[k] for k in ("regex", "kind", "b", "a", "m", "plain")} | {"returned": x["out"][:10]} for x in recs if x["b"] or x["a"]][:3],
               "maxlen": maxlen}
        return V.finish(cov, ["base64 is modelled as an opaque box (its alphabet has none of the split characters)",
                              "Go regexp compiled from the user's pattern defines 'the lines the user asked for'",
                              "serverless transport (same handlers as over SSH)"])
