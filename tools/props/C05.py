"""C05 - the distributed mapreduce result equals the central evaluation of the query.

spec/MaprAlgebra.tla: per-line aggregation, serialise/reset, client re-aggregation, Merge, result rows - for every
table of up to MaxLines lines x every partition into (server 1 interval 1, server 1 interval 2, server 2) x every
aggregate operation x with/without a second select item x where filter x merge pattern; TLC checks DistEqualsCentral.
(A) the cases with TLC's central rows drive the real server.Aggregate / client.Aggregate / GlobalGroupSet / WriteResult
pipeline; the CSV rows are compared with the central rows."""
import json
import os
import random

import vlib
from vlib import log

PID = "C05"
OV = {"internal/mapr/server/vcommon_test.go": ("common/vcommon_test.go", "server"),
      "internal/mapr/server/c05_test.go": "maprserver/c05_test.go"}


def fnum(x):
    return "%f" % x


def expected_cell(row, op, vals, lens):
    """returns the set of acceptable strings for the OP(v) column"""
    if op == "count":
        return {str(row["x"])}
    if op == "last":
        return set(vals) if vals else {row["s"]}
    if op == "len":
        return {fnum(l) for l in lens} if lens else {fnum(row["x"])}
    if op == "avg":
        return {fnum(row["x"] / row["n"])} if row["n"] else {"NaN", fnum(0.0)}
    return {fnum(row["x"])}


def close(a, bset):
    if a in bset:
        return True
    try:
        fa = float(a)
        return any(abs(fa - float(b)) <= 1e-9 * max(1.0, abs(fa)) for b in bset)
    except ValueError:
        return False


def rows_match(case, rows, which):
    """compare real CSV rows with the model rows 'which' (central or impl)"""
    exp = {g: r for g, r in case[which].items() if r["has"]}
    op = case["op"]
    free = which == "central"
    if case["withCount"]:
        got = {}
        for r in rows:
            if len(r) != 3 or r[0] in got:
                return False
            got[r[0]] = r
        if set(got) != set(exp):
            return False
        for g, r in got.items():
            e = exp[g]
            if r[1] != str(e["cnt"]):
                return False
            cells = expected_cell(e, op, case["vals"][g] if free else [], case["lens"][g] if free else [])
            if not close(r[2], cells):
                return False
        return True
    if len(rows) != len(exp) or any(len(r) != 1 for r in rows):
        return False
    # without a key column: match rows to groups in any assignment
    gs = list(exp)
    import itertools
    for perm in itertools.permutations(range(len(rows))):
        if all(close(rows[perm[i]][0], expected_cell(exp[g], op, case["vals"][g] if free else [], case["lens"][g] if free else []))
               for i, g in enumerate(gs)):
            return True
    return False


def run(tier, replay):
    V = vlib.Verdict(PID, tier)
    kf_open = "KF_MergeMissingKey" in V.kf
    rng = random.Random(vlib.seed())
    maxlines = 2 if tier == "quick" else 3
    with vlib.Scratch(PID) as wd:
        def L(g, k, n=0):
            return '[g |-> "%s", v |-> [k |-> "%s", n |-> %d]]' % (g, k, n)
        extra = [[L("a", "num", 2), L("b", "num", 2), L("a", "num", -1)], [L("b", "num", 0), L("a", "num", 2), L("b", "none")],
                 [L("a", "none"), L("b", "num", 2), L("a", "num", 2)], [L("a", "nan"), L("a", "num", 2), L("b", "num", -1)],
                 [L("a", "num", 2), L("a", "num", 0), L("a", "num", -1)], [L("b", "num", 2), L("a", "num", -1), L("b", "num", -1)]]
        # three groups with distinct and with tied values (ordering and limit)
        extra = extra + [[L("a", "num", 2), L("b", "num", 0), L("c", "num", -1)], [L("a", "num", 2), L("b", "num", 2), L("c", "num", 0)],
                         [L("c", "num", 2), L("a", "num", 0), L("b", "num", 2), L("a", "num", 2)], [L("b", "num", -1), L("c", "num", -1), L("a", "nan")]]
        # magnitudes: sums/minima/maxima at and beyond 10^6, where a partial result is serialised in exponent notation
        extra = extra + [[L("a", "num", 1000000), L("b", "num", 2), L("a", "num", 5)], [L("a", "num", 999999), L("a", "num", 1), L("b", "num", 1234567)],
                         [L("a", "num", -1000000), L("b", "num", 25000000), L("a", "num", -1)]]
        if tier != "quick":
            extra = extra + [[L("a", "num", 2), L("b", "num", 0), L("a", "num", -1), L("b", "nan")],
                             [L("b", "num", -1), L("a", "none"), L("b", "num", 2), L("a", "num", 0)]]
        mc = ('---- MODULE GMapr ----\nEXTENDS MaprAlgebraCases\nMCOps == {"count", "sum", "min", "max", "avg", "len", "last"}\n'
              'MCExtra == {%s}\n====\n' % ", ".join("<<" + ", ".join(t) + ">>" for t in extra))
        def cfg(kf, inv):
            return ("SPECIFICATION Spec\nCONSTANTS\n MaxLines = %d\n Ops <- MCOps\n ExtraTables <- MCExtra\n KF_MergeMissingKey = %s\nINVARIANTS %s\n" %
                    (maxlines, "TRUE" if kf else "FALSE", inv))
        # the strict (repaired) design must satisfy the Ref
        r = vlib.tlc(wd, "GMapr", "G.cfg", files={"GMapr.tla": mc, "G.cfg": cfg(False, "DistEqualsCentral")}, timeout=3300, heap="24g")
        if not r.ok:
            raise vlib.Inconclusive("TLC MaprAlgebra strict: %s %s" % (r.violated, (r.error or "")[-1500:]))
        log("TLC MaprAlgebra MaxLines=%d: %d cases, DistEqualsCentral holds on the strict model" % (maxlines, r.distinct))
        if kf_open:
            rk = vlib.tlc(wd, "GMapr", "G.cfg", files={"G.cfg": cfg(True, "DistEqualsCentral")}, timeout=3300)
            if rk.violated != "DistEqualsCentral":
                raise vlib.Inconclusive("KF model does not show the deviation")
        # emission run (impl rows according to the open deviations)
        elines = 2 if tier == "quick" else 3
        cfg_e = ("SPECIFICATION Spec\nCONSTANTS\n MaxLines = %d\n Ops <- MCOps\n ExtraTables <- MCExtra\n KF_MergeMissingKey = %s\nINVARIANTS Emit\n" %
                 (elines, "TRUE" if kf_open else "FALSE"))
        re_ = vlib.tlc(wd, "GMapr", "G.cfg", files={"G.cfg": cfg_e}, timeout=3300, workers=4, heap="24g")
        if not re_.ok:
            raise vlib.Inconclusive("TLC emission: %s %s" % (re_.violated, (re_.error or "")[-800:]))
        cases = []
        for line in re_.out.splitlines():
            if line.startswith('"{'):
                cases.append(json.loads(json.loads(line)))
        if len(cases) != re_.distinct:
            raise vlib.Inconclusive("emitted %d cases, TLC explored %d states" % (len(cases), re_.distinct))
        def nontrivial(c):
            if len(c["lines"]) > maxlines:
                return True
            # lines of one group spread over at least two parts
            for g in ("a", "b", "c"):
                ps = {c["part"][i] for i, l in enumerate(c["lines"]) if l["g"] == g}
                if len(ps) >= 2:
                    return True
            return False
        nt = [c for c in cases if nontrivial(c)]
        tr = [c for c in cases if not nontrivial(c)]
        rng.shuffle(nt)
        rng.shuffle(tr)
        limit = 3500 if tier == "quick" else 60000
        chosen = nt[:limit * 4 // 5] + tr[:limit // 5]
        # set clause: "set $w = v" + OP($w).  A line without v gets $w = the literal text "v", i.e. it behaves like a line whose
        # v is non-numeric: the central rows are those TLC computed for the table with none -> nan (looked up, not recomputed)
        def ckey(c, lines):
            return json.dumps([lines, c["part"], c["withCount"], c["op"], c["accumulate"], c["wh"]], sort_keys=True)
        index = {ckey(c, c["lines"]): c for c in cases}
        nset = 0
        for c in list(chosen):
            if c["op"] != "last" and rng.random() < 0.12:
                tl = [dict(l, k="nan") if l["k"] == "none" else l for l in c["lines"]]
                t = index.get(ckey(c, tl))
                if t is not None:
                    c2 = dict(t, lines=c["lines"], setcopy=True)
                    chosen.append(c2)
                    nset += 1
        for i, c in enumerate(chosen):
            c["id"] = i
            c.setdefault("setcopy", False)
            has_none = any(l["k"] == "none" for l in c["lines"])
            c["format"] = rng.choice(["generickv", "generickv", "default"] + ([] if has_none else ["csv"]))
            c["ord"], c["ordcol"], c["lim"] = "", "count", -1
            if c["withCount"] and c["op"] != "last" and rng.random() < (0.9 if len({l["g"] for l in c["lines"]}) >= 3 else 0.4):
                c["ord"] = rng.choice(["order", "rorder", "order", "rorder", ""])
                c["lim"] = rng.choice([-1, -1, 0, 1, 2, 3])
                if c["ord"] == "" and c["lim"] < 0:
                    c["lim"] = 1
                opkey_ok = c["op"] != "len" and all(r["n"] > 0 for r in c["central"].values() if r["has"] and c["op"] == "avg")
                c["ordcol"] = rng.choice(["count", "op"]) if opkey_ok else "count"
        cj, oj = os.path.join(wd, "cases.json"), os.path.join(wd, "out.json")
        json.dump(chosen, open(cj, "w"))
        rc, out = vlib.go_test(wd, "./internal/mapr/server", OV, "TestC05Replay", env={"VERIF_CASES": cj, "VERIF_OUT": oj}, timeout=3300)
        if rc != 0 or not os.path.exists(oj):
            raise vlib.Inconclusive("harness failed\n" + out[-2500:])
        results = json.load(open(oj))
        problems = 0
        order_recs = []
        for c, res in zip(chosen, results):
            rows = res.get("rows") or []
            desc = {"query": res["query"], "lines": c["lines"], "part": c["part"], "accumulate": c["accumulate"], "format": c["format"],
                    "rows": rows, "central": {g: r for g, r in c["central"].items() if r["has"]}}
            if res.get("problem"):
                if res["problem"].startswith("panic"):
                    V.violation("pipeline " + res["problem"], desc)
                else:
                    problems += 1
                continue
            if c["ord"] or c["lim"] >= 0:
                # ordering / limit: every row that is output must be the row of its group; which rows and in which order
                # is judged by TLC (RowsAcceptable) below
                exp = {g: r for g, r in c["central"].items() if r["has"]}
                for kind, rws in (("csv", rows), ("table", res.get("table") or [])):
                    if kind == "table" and any(len(r) != 3 for r in rws):
                        # the layout of the terminal table is not part of the property: if it cannot be read as rows of
                        # three cells it is not judged
                        V.diverge("case %d: the terminal table could not be parsed into rows of 3 cells" % c["id"])
                        continue
                    ok = len({r[0] for r in rws if r}) == len(rws) and all(
                        len(r) == 3 and r[0] in exp and r[1] == str(exp[r[0]]["cnt"]) and
                        close(r[2], expected_cell(exp[r[0]], c["op"], c["vals"][r[0]], c["lens"][r[0]])) for r in rws)
                    if not ok:
                        V.violation("a row of the %s result is not the row of its group" % kind, dict(desc, table=res.get("table")))
                        break
                    keys = []
                    for g, er in exp.items():
                        num, den = (er["cnt"], 1) if c["ordcol"] == "count" else ((er["x"], er["n"]) if c["op"] == "avg" else (er["x"], 1))
                        keys.append({"g": g, "num": num, "den": den})
                    order_recs.append({"id": len(order_recs) + 1, "ord": c["ord"], "lim": c["lim"], "out": [r[0] for r in rws], "keys": keys,
                                       "_desc": dict(desc, kind=kind, table=res.get("table"))})
                continue
            if rows_match(c, rows, "central"):
                continue
            if kf_open and rows_match(c, rows, "impl"):
                V.known("KF_MergeMissingKey", desc)
            else:
                V.violation("the final result differs from the central evaluation", desc)
        if problems > len(chosen) // 20:
            raise vlib.Inconclusive("%d cases had harness problems: %s" % (problems, [r["problem"] for r in results if r.get("problem")][:3]))
        # ordering and limit: TLC checks the Impl of ordering against RowsAcceptable and judges the recorded outputs
        vlib.write_ndjson(os.path.join(wd, "c05_order.ndjson"), [{k: v for k, v in r.items() if k != "_desc"} for r in order_recs] or
                          [{"id": 0, "ord": "", "lim": 0, "out": [], "keys": []}])
        mo_mod = ('---- MODULE GOrder ----\nEXTENDS MaprOrder\nMCOps == {"count"}\nMCExtra == {}\n'
                  'Init0 == lines = <<[g |-> "a", v |-> [k |-> "none", n |-> 0]]>> /\\ part = <<1>> /\\ withCount = TRUE /\\ op = "count" '
                  '/\\ accumulate = FALSE /\\ wh = FALSE\nNext0 == UNCHANGED vars\n====\n')
        mo_cfg = "INIT Init0\nNEXT Next0\nCONSTANTS\n MaxLines = 1\n Ops <- MCOps\n ExtraTables <- MCExtra\n KF_MergeMissingKey = FALSE\n"
        ro = vlib.tlc(wd, "GOrder", "GOrder.cfg", files={"GOrder.tla": mo_mod, "GOrder.cfg": mo_cfg}, timeout=900, workers=4)
        if not ro.ok:
            raise vlib.Inconclusive("TLC MaprOrder: %s %s" % (ro.violated, (ro.error or ro.out)[-1200:]))
        badorder = vlib.printed_set(ro.out, "BADORDER")
        for orec in order_recs:
            if orec["id"] in badorder:
                V.violation("ordering / limit: the %s rows %s are not an acceptable result for ord='%s' on the %s column, limit %d (RowsAcceptable by TLC)" %
                            (orec["_desc"]["kind"], orec["out"], orec["ord"], "order", orec["lim"]), dict(orec["_desc"], keys=orec["keys"]))
        log("ordering/limit: %d recorded outputs judged by TLC, ImplOrderOK holds for all key assignments of 3 groups" % len(order_recs))
        # set clause with nested functions (f(g(u)) = f after g), grouped by the computed field
        fo = os.path.join(wd, "setfn.json")
        rc, out = vlib.go_test(wd, "./internal/mapr/server", OV, "TestC05SetFunctions", env={"VERIF_OUT": fo}, timeout=300)
        if rc != 0 or not os.path.exists(fo):
            raise vlib.Inconclusive("set function harness failed\n" + out[-2000:])
        for b in json.load(open(fo))["bad"] or []:
            V.violation("set clause with functions: the groups differ from the central evaluation", b)
        # group by a tuple of fields, some of them missing in some lines
        go_ = os.path.join(wd, "tuple.json")
        rc, out = vlib.go_test(wd, "./internal/mapr/server", OV, "TestC05GroupByTuple", env={"VERIF_OUT": go_}, timeout=300)
        if rc != 0 or not os.path.exists(go_):
            raise vlib.Inconclusive("group-by-tuple harness failed\n" + out[-2000:])
        for b in json.load(open(go_))["bad"] or []:
            V.violation("group by several fields: the rows differ from the central evaluation (a missing field is an empty position of the key)", b)
        # csv cells and key=value pairs with the same text (the empty text included) are the same field values
        eo = os.path.join(wd, "csvempty.json")
        rc, out = vlib.go_test(wd, "./internal/mapr/server", OV, "TestC05CsvEmptyCells", env={"VERIF_OUT": eo}, timeout=300)
        if rc != 0 or not os.path.exists(eo):
            raise vlib.Inconclusive("csv empty-cell harness failed\n" + out[-2000:])
        for b in json.load(open(eo))["bad"] or []:
            V.violation("the same rows as csv (with empty cells) and as key=value pairs give different results", b)
        # magnitudes: a partial count/sum beyond 10^6 inside one serialisation interval
        mo = os.path.join(wd, "mag.json")
        nbig = 1000005 if tier == "quick" else 2500003
        rc, out = vlib.go_test(wd, "./internal/mapr/server", OV, "TestC05Magnitude", env={"VERIF_OUT": mo, "VERIF_N": nbig}, timeout=900)
        if rc != 0 or not os.path.exists(mo):
            raise vlib.Inconclusive("magnitude harness failed\n" + out[-2000:])
        mag = json.load(open(mo))
        want = {"a": [nbig + 2, nbig + 8, 1, 5, (nbig + 8) / (nbig + 2)], "b": [1, 2, 2, 2, 2.0], "c": [3, 2000000, 1, 1000000, 2000000 / 3]}
        got = {r[0]: [float(x) for x in r[1:]] for r in mag["rows"] if len(r) == 6}
        for g, w in want.items():
            if g not in got or any(abs(a - b) > 1e-4 * max(1.0, abs(b)) for a, b in zip(got[g], w)):
                V.violation("magnitude case: group %s is %s, central evaluation gives %s (count,sum,min,max,avg)" % (g, got.get(g), w),
                            {"n": nbig, "rows": mag["rows"], "wire": mag["wire"][:6]})
        cov = {"ordering_limit_outputs_judged": len(order_recs), "set_clause_cases": nset, "states": r.distinct + re_.distinct, "transitions": r.generated + re_.generated,
               "traces_validated_against_impl": len(chosen) - problems, "evaluations": len(chosen) - problems,
               "distinct_nontrivial": sum(1 for c in chosen if nontrivial(c)),
               "rule": "cases = tables of up to MaxLines lines (2 groups x 5 kinds of field value) x partitions into 3 parts x 7 aggregate "
                       "operations x with/without key+count columns x where filter x merge pattern, enumerated by TLC; non-trivial = the lines "
                       "of one group are spread over at least two parts; log format generickv/default/csv chosen per seed",
               "exhaustive": len(chosen) == len(cases), "cases_enumerated": len(cases), "harness_problems": problems,
               "samples": [{k: chosen[0][k] for k in ("lines", "part", "op", "withCount", "accumulate", "wh", "central")}, {"query": results[0]["query"], "rows": results[0].get("rows")}]}
        return V.finish(cov, ["integer-valued model; floats compared with relative tolerance 1e-9",
                              "without the key column rows are matched to groups in any assignment",
                              "ordering and limit are not part of this model (tie-tolerant check is future work)"])
