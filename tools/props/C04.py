"""C04 - following a file delivers every appended line once, in order.

spec/Tail.tla: pre-existing content, the writer's chunks (any chunking), the reader (seek to the end on open, byte-wise
line assembly, partial line kept over EOF polls), the filter, the bounded delivery queue with drops and the statistics
ring with its integer percentage; TLC checks ExactlyOnceInOrder, NumbersRight and DropNoticed.  (A) behaviours from TLC
-simulate (open / write(chunk) / take) are executed on a real file followed by the real NewTailFile reader; the harness is
writer and consumer, 'caught up' is read from /proc/self/fdinfo.  Bulk runs append 60-300 lines in bursts against queues of
1, 2 and 100 with and without a filter."""
import json
import os
import random

import e2e
import vlib
from vlib import log

PID = "C04"
OV = {"internal/io/fs/vcommon_test.go": ("common/vcommon_test.go", "fs"),
      "internal/io/fs/c04_test.go": "fs/c04_test.go"}


def cfg(pre, maxbytes, cap, r, flt, kf, inv="ExactlyOnceInOrder NumbersRight DropNoticed", view=True):
    s = ("SPECIFICATION Spec\nCONSTANTS\n Pre <- %s\n MaxBytes = %d\n Cap = %d\n R = %d\n Filter = %s\n KF_DropForgotten = %s\nINVARIANTS %s\n" %
         (pre, maxbytes, cap, r, "TRUE" if flt else "FALSE", "TRUE" if kf else "FALSE", inv))
    if view:
        s += "VIEW viewNoHist\n"
    return s


PRE = {"PreNone": [], "PrePartial": ["a"], "PreLine": ["a", "n", "b"]}


def run(tier, replay):
    V = vlib.Verdict(PID, tier)
    kf = "KF_DropForgotten" in V.kf
    rng = random.Random(vlib.seed())
    with vlib.Scratch(PID) as wd:
        states = trans = 0
        mb = 5 if tier == "quick" else 6
        for pre, cap, r, flt in [("PreLine", 9, 3, True), ("PrePartial", 1, 3, False), ("PreNone", 1, 3, True), ("PreNone", 1, 2, True)]:
            # while the ring-window deviation is an open finding the DropNoticed obligation is waived (KF_DropForgotten = TRUE)
            res = vlib.tlc(wd, "MC_Tail", "G.cfg", files={"G.cfg": cfg(pre, mb, cap, r, flt, kf)}, timeout=3300)
            if not res.ok:
                raise vlib.Inconclusive("TLC Tail %s: %s %s" % (pre, res.violated, (res.error or "")[-1000:]))
            states += res.distinct
            trans += res.generated
            log("TLC Tail Pre=%s Cap=%d Filter=%s MaxBytes=%d: %d distinct states; ExactlyOnceInOrder, NumbersRight hold" % (pre, cap, flt, mb, res.distinct))
        if not kf:
            # the repaired statistics in the scope where the old ones fail (ring of 2, nine bytes): DropNoticed must hold
            res9 = vlib.tlc(wd, "MC_Tail", "G.cfg", files={"G.cfg": cfg("PreNone", 9 if tier == "quick" else 10, 1, 2, True, False)}, timeout=3300)
            if not res9.ok:
                raise vlib.Inconclusive("TLC Tail ring=2: %s %s" % (res9.violated, (res9.error or "")[-1000:]))
            states += res9.distinct
            trans += res9.generated
            log("TLC Tail ring of 2, 9 bytes: %d distinct states; DropNoticed holds with the remembered drop" % res9.distinct)
            # non-vacuity: the model of the old code (no memory of the drop) must violate DropNoticed with a ring of 2
            resk = vlib.tlc(wd, "MC_Tail", "G.cfg", files={"G.cfg": cfg("PreNone", 9, 1, 2, True, True, inv="NoBadPerc")}, timeout=900)
            if resk.violated != "NoBadPerc":
                raise vlib.Inconclusive("the model of the unrepaired statistics does not show the forgotten drop (%s)" % resk.violated)
        cases = []
        nsim = 60 if tier == "quick" else 2500
        for pre, cap, flt in [("PreLine", 100, True), ("PrePartial", 1, False), ("PreNone", 2, True), ("PreLine", 1, True), ("PrePartial", 100, False)]:
            rs = vlib.tlc(wd, "MC_Tail", "S.cfg", files={"S.cfg": cfg(pre, 6, min(cap, 9), 3, flt, True, inv="EmitHist", view=False)}, timeout=600,
                          workers=1, simulate="num=%d" % nsim, extra=["-depth", "60", "-seed", str(vlib.seed())])
            seen = set()
            for line in rs.out.splitlines():
                if line.startswith('"{'):
                    h = [[st[0]] + (list(st[1]) if len(st) > 1 else []) for st in json.loads(json.loads(line))["hist"]]
                    key = json.dumps(h)
                    if key not in seen:
                        seen.add(key)
                        cases.append({"id": 0, "pre": PRE[pre], "steps": h, "cap": cap, "filter": flt, "seed": rng.randrange(1 << 40), "bulk": 0})
        if len(cases) < 10:
            raise vlib.Inconclusive("too few behaviours from TLC: %d" % len(cases))
        rng.shuffle(cases)
        cases = cases[:(150 if tier == "quick" else 6000)]
        for i in range(12 if tier == "quick" else 80):
            cases.append({"id": 0, "pre": rng.choice(list(PRE.values())), "steps": [], "cap": rng.choice([1, 2, 100]), "filter": rng.random() < 0.6,
                          "seed": rng.randrange(1 << 40), "bulk": rng.choice([60, 120, 300])})
        # follows lasting across two of the reader's 3 s truncation checks (plain path and symbolic link, with and without filter)
        for k, (sym, flt) in enumerate([(False, True), (True, False)] if tier == "quick" else [(False, True), (True, False), (True, True), (False, False)]):
            cases.append({"id": 0, "pre": ["a", "n"] if k % 2 else [], "steps": [], "cap": 100, "filter": flt, "seed": 40 + k, "bulk": 0, "long": True, "symlink": sym})
        cases.append({"id": 0, "pre": [], "steps": [], "cap": 2, "filter": True, "seed": 5, "bulk": 30, "forget": True})
        cases.append({"id": 0, "pre": [], "steps": [], "cap": 1, "filter": True, "seed": 6, "bulk": 1, "stale": True})
        cases.append({"id": 0, "pre": ["a", "n", "b"], "steps": [], "cap": 2, "filter": True, "seed": 8, "bulk": 1, "stale": True})
        for i, c in enumerate(cases):
            c["id"] = i + 1
        cj, oj = os.path.join(wd, "cases.json"), os.path.join(wd, "out.json")
        json.dump(cases, open(cj, "w"))
        rc, out = vlib.go_test(wd, "./internal/io/fs", OV, "TestC04Replay", env={"VERIF_CASES": cj, "VERIF_OUT": oj}, timeout=1800)
        if rc != 0 or not os.path.exists(oj):
            raise vlib.Inconclusive("harness failed\n" + out[-2500:])
        results = json.load(open(oj))
        delivered = 0
        for c, res in zip(cases, results):
            delivered += len(res.get("delivered") or [])
            if res.get("problem"):
                V.diverge("case %d: %s" % (c["id"], res["problem"]))
                continue
            desc = {"case": {k: c[k] for k in ("id", "pre", "cap", "filter", "bulk")}, "steps": c["steps"][:20], "bad": (res.get("bad") or [])[:4],
                    "delivered_head": (res.get("delivered") or [])[:8], "appended_head": (res.get("appended") or [])[:8]}
            if res.get("bad"):
                V.violation(res["bad"][0][:300], desc)
            elif res.get("forgotten"):
                if kf:
                    V.known("KF_DropForgotten", desc)
                else:
                    V.violation("a line was dropped, more than 100 lines later the next delivered line reports 100%", desc)
        # the same property where a user sees it: the real dtail following a file on a real dserver
        follow_runs = e2e.stage_follow(wd, V, random.Random(vlib.seed() + 4), tier)
        log("dtail over SSH following a growing file (CR endings, two-part lines, lines beyond MaxLineLength, bursts): %d run" % follow_runs)
        cov = {"states": states, "transitions": trans, "traces_validated_against_impl": len(cases) + follow_runs, "e2e_follow_runs": follow_runs,
               "evaluations": delivered, "distinct_nontrivial": sum(1 for c in cases if c["cap"] < 100 or c["pre"] or c["bulk"]),
               "rule": "cases = distinct behaviours (open / write(chunk) / take) of Tail.tla from TLC -simulate for 5 combinations of pre-existing "
                       "content, queue capacity (1, 2, 100) and filter, executed with concrete bytes (multi-byte characters, writes split at "
                       "arbitrary bytes), plus bulk runs of 60-300 lines in bursts and one run with a drop followed by 130 filtered-out lines; "
                       "evaluations = delivered lines checked; non-trivial = tiny queue, pre-existing content or bulk",
               "exhaustive": False, "samples": [{k: cases[0][k] for k in ("pre", "steps", "cap", "filter")}, {"delivered": (results[0].get("delivered") or [])[:5]}]}
        return V.finish(cov, ["the reader is eager (it consumes everything available before the harness takes its next step); the model's lazier interleavings "
                              "are covered by TLC only", "'caught up' = read offset of the reader's descriptor in /proc/self/fdinfo equals the file size",
                              "truncation / re-open is modelled for coverage only (the property is about appends)"])
