"""C15 - a mapreduce outfile is never observable half-written.

spec/Outfile.tla: the four paths (outfile, .tmp, .query, .query.tmp) as sequences of written chunks, one run = the
sequence of file system operations of WriteResult(), Crash between any two operations, repeated runs (interim, final,
append, non-append); TLC checks NeverPartial, QueryBeside, AppendOnly and HeaderOnceAtRunEnd.  (A) the histories TLC
enumerates (which run is killed before which operation) are executed with the real WriteResult() in a child process that
kills itself (SIGKILL) at the chosen trace point; after every run the parent inspects the four paths.  In addition every
trace point of every run shape is used as a kill point once (enumerated, not sampled)."""
import json
import os
import random

import vlib
from vlib import log

PID = "C15"
OV = {"internal/mapr/vcommon_test.go": ("common/vcommon_test.go", "mapr"),
      "internal/mapr/c15_test.go": "mapr/c15_test.go"}

SHAPES = {
    "NonAppend3": [dict(append=False, final=False, rows=1), dict(append=False, final=True, rows=2), dict(append=False, final=True, rows=1)],
    "NonAppend2": [dict(append=False, final=True, rows=2), dict(append=False, final=True, rows=1)],
    "Append3": [dict(append=True, final=True, rows=1), dict(append=True, final=True, rows=2), dict(append=True, final=False, rows=1)],
    "Append2": [dict(append=True, final=True, rows=1), dict(append=True, final=True, rows=1)],
}


def labels(run):
    """the trace points of one unkilled run in order, as label#occurrence (mirror of Outfile.tla Prog + the real code's points)"""
    seq = ["query.open", "query.write", "query.rename", "query.done", "out.open"]
    seq += ["header.field", "header.delimiter", "header.field", "header.newline"]   # only reached when the header is written
    for _ in range(run["rows"]):
        seq += ["row.value", "row.delimiter", "row.value", "row.newline"]
    if run["append"]:
        seq += ["append.write"]
    if not run["append"] and run["final"]:
        seq += ["out.rename", "out.renamed"]
    seq += ["out.return"]
    return seq


def pc_to_label(run, pc):
    """model operation index (1-based) -> trace point in front of the corresponding real operation"""
    ops = ["query.open", "query.write", "query.rename", "out.open", "out.open"]
    ops += ["header.field", "header.delimiter", "header.field", "header.newline"]
    for _ in range(run["rows"]):
        ops += ["row.value", "row.delimiter", "row.value", "row.newline"]
    if not run["append"] and run["final"]:
        ops += ["out.rename"]
    label = ops[pc - 1]
    occ = sum(1 for x in ops[:pc] if x == label) if label != "out.open" else 1
    return "%s#%d" % (label, occ)


def cfg(shape, kf, invs):
    return ("SPECIFICATION Spec\nCONSTANTS\n Runs <- %s\n KF_TornHeaderAppend = %s\nINVARIANTS %s\nPROPERTY AppendOnly\n" %
            (shape, "TRUE" if kf else "FALSE", invs))


def run(tier, replay):
    V = vlib.Verdict(PID, tier)
    kf = "KF_TornHeaderAppend" in V.kf
    rng = random.Random(vlib.seed())
    with vlib.Scratch(PID) as wd:
        states = trans = 0
        cases = []
        for shape, runs in SHAPES.items():
            app = runs[0]["append"]
            inv = "HeaderOnceAtRunEnd" if app else "NeverPartial QueryBeside"
            r = vlib.tlc(wd, "MC_Outfile", "G.cfg", files={"G.cfg": cfg(shape, False, inv) + "VIEW viewNoHist\n"}, timeout=1200)
            if not r.ok:
                raise vlib.Inconclusive("TLC Outfile strict %s: %s %s" % (shape, r.violated, (r.error or "")[-1000:]))
            states += r.distinct
            trans += r.generated
            if app and kf:
                rk = vlib.tlc(wd, "MC_Outfile", "G.cfg", files={"G.cfg": cfg(shape, True, inv) + "VIEW viewNoHist\n"}, timeout=600)
                if rk.violated != "HeaderOnceAtRunEnd":
                    raise vlib.Inconclusive("append deviation model does not violate HeaderOnceAtRunEnd")
            # all histories (without VIEW every distinct history is a state): emitted when all runs are over
            re_ = vlib.tlc(wd, "MC_Outfile", "E.cfg", files={"E.cfg": cfg(shape, kf if app else False, "EmitHist").replace("PROPERTY AppendOnly\n", "")},
                           timeout=1200, workers=4)
            if not re_.ok:
                raise vlib.Inconclusive("TLC Outfile emission %s: %s %s" % (shape, re_.violated, (re_.error or "")[-800:]))
            hs = []
            for line in re_.out.splitlines():
                if line.startswith('"{'):
                    hs.append(json.loads(json.loads(line))["hist"])
            uniq = {json.dumps(h): h for h in hs}
            for h in uniq.values():
                if any(e["kill"] < 0 for e in h):
                    continue    # a failing write at an exact step cannot be forced from outside; see the file-size-limit cases below
                cr = []
                for e in h:
                    rr = dict(runs[e["run"] - 1])
                    rr["kill"] = pc_to_label(rr, e["kill"]) if e["kill"] else ""
                    cr.append(rr)
                cases.append({"id": 0, "runs": cr, "shape": shape})
            log("TLC Outfile %s: %d distinct states, %d histories" % (shape, r.distinct, len(uniq)))
        rng.shuffle(cases)
        cases = cases[:(140 if tier == "quick" else 4000)]
        # every trace point of every run shape once as a kill point, followed by a complete run
        for shape, runs in SHAPES.items():
            for ri, rr in enumerate(runs):
                seq = labels(rr)
                seen = {}
                for lab in seq:
                    seen[lab] = seen.get(lab, 0) + 1
                    cr = [dict(x, kill="") for x in runs[:ri]] + [dict(rr, kill="%s#%d" % (lab, seen[lab]))] + [dict(x, kill="") for x in runs[ri:]]
                    cases.append({"id": 0, "runs": cr, "shape": shape, "enumerated": True})
        # a write that fails (file size limit) instead of a kill: a larger final result after a complete one, and a large interim one
        for lim in (150, 400, 700):
            cases.append({"id": 0, "shape": "WriteError", "runs": [{"append": False, "final": True, "rows": 3, "kill": ""},
                                                                   {"append": False, "final": True, "rows": 150, "kill": "fsize:%d" % lim},
                                                                   {"append": False, "final": False, "rows": 150, "kill": "fsize:%d" % lim},
                                                                   {"append": False, "final": True, "rows": 2, "kill": ""}]})
        for i, c in enumerate(cases):
            c["id"] = i + 1
        cj, oj = os.path.join(wd, "cases.json"), os.path.join(wd, "out.json")
        json.dump(cases, open(cj, "w"))
        rc, out = vlib.go_test(wd, "./internal/mapr", OV, "TestC15Parent", env={"VERIF_CASES": cj, "VERIF_OUT": oj}, timeout=1500)
        if rc != 0 or not os.path.exists(oj):
            raise vlib.Inconclusive("harness failed\n" + out[-2500:])
        results = json.load(open(oj))
        kills = 0
        for c, res in zip(cases, results):
            kills += sum(1 for s in res["snaps"] if s["killed"])
            bad = [b for b in (res.get("bad") or []) if "never reached" not in b or not any(x.startswith("header") for x in [b.split("kill point ")[-1]])]
            # a header kill point is legitimately not reached when the run writes no header (append to a non-empty file)
            bad = [b for b in bad if not ("never reached" in b and "header." in b)]
            if not bad:
                continue
            desc = {"case": {"id": c["id"], "shape": c["shape"], "runs": c["runs"]}, "bad": bad[:4],
                    "files_after_each_run": [{k: s[k] for k in ("run", "kill", "killed", "out", "has_out", "has_tmp", "has_query")} for s in res["snaps"]]}
            if kf and res.get("torn_header") and all("header" in b for b in bad):
                V.known("KF_TornHeaderAppend", desc)
            else:
                V.violation(bad[0][:300], desc)
        # the reporter's interim write overlapping the final write (they share <outfile>.tmp)
        co = os.path.join(wd, "conc.json")
        rc, out = vlib.go_test(wd, "./internal/mapr", OV, "TestC15Concurrent", env={"VERIF_OUT": co, "VERIF_N": 20000 if tier == "quick" else 120000}, timeout=900)
        if rc != 0 or not os.path.exists(co):
            raise vlib.Inconclusive("concurrent writers harness failed\n" + out[-2000:])
        for b in json.load(open(co))["bad"] or []:
            V.violation("interim write overlapping the final write: " + b, {"bad": b})
        # several reports of one process into an append-mode outfile
        tw = os.path.join(wd, "twice.json")
        rc, out = vlib.go_test(wd, "./internal/mapr", OV, "TestC15AppendTwice", env={"VERIF_OUT": tw}, timeout=300)
        if rc != 0 or not os.path.exists(tw):
            raise vlib.Inconclusive("append-twice harness failed\n" + out[-2000:])
        for b in json.load(open(tw))["bad"] or []:
            V.violation("one process reporting three times in append mode: " + b[:300], {"bad": b})
        # kill points at write(2) granularity (strace): an append of a result larger than any library buffer
        so = os.path.join(wd, "syswrite.json")
        rc, out = vlib.go_test(wd, "./internal/mapr", OV, "TestC15SysWrite", env={"VERIF_OUT": so}, timeout=600)
        if rc != 0 or not os.path.exists(so):
            raise vlib.Inconclusive("write(2) kill harness failed\n" + out[-2000:])
        sw = json.load(open(so))
        for b in sw["bad"] or []:
            V.violation(b, sw)
        if sw.get("skipped"):
            V.diverge("write(2)-granular kill points not explored: " + sw["skipped"])
        else:
            log("append run killed on entering the n-th write(2) to the outfile: %s" % ", ".join("%d:%s" % (o["n"], o["state"]) for o in sw["obs"] or []))
        cov = {"states": states, "transitions": trans, "traces_validated_against_impl": len(cases), "syswrite_kills": sw.get("obs"),
               "evaluations": sum(len(r["snaps"]) for r in results), "distinct_nontrivial": kills,
               "rule": "cases = histories of Outfile.tla enumerated by TLC for 4 run shapes (interim+final non-append, append, repeated runs; each "
                       "run complete or killed before a given operation) plus every trace point of every run once as a kill point; evaluations "
                       "= runs executed and inspected, non-trivial = runs actually killed by SIGKILL at the chosen point",
               "exhaustive": tier == "thorough", "samples": [cases[0], {"files": results[0]["snaps"][:2]}]}
        return V.finish(cov, ["atomicity of rename(2) and of a single write(2) call is the kernel's and assumed",
                              "kill points are the trace points in front of every file system call of WriteResult plus the points right after the renames and before the return"])
