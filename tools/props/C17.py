"""C17 - the client talks only to servers whose host key is trusted.

spec/KnownHosts.tla: known-hosts files as sequences of line kinds (plain entry with the server's / another key, hashed,
multi-host, foreign, @cert-authority, comment, blank), contacted servers, batched prompt with the answers y/n/a/d,
trust-all, cancellation; TLC checks OnlyTrusted, RefusedGetNothing and RewriteRight.  (A) every (file, trust-all, answer)
case enumerated by TLC is rendered with real keys and run through the real KnownHostsCallback (Wrap, promptAddHosts with
the answer on stdin, trustHosts); the real PromptAddHosts loop is driven once with a cancelled context and once with an
approval."""
import json
import os

import vlib
from vlib import log

PID = "C17"
OV = {"internal/ssh/client/vcommon_test.go": ("common/vcommon_test.go", "client"),
      "internal/ssh/client/c17_test.go": "sshclient/c17_test.go"}


def run(tier, replay):
    V = vlib.Verdict(PID, tier)
    maxlines = 2 if tier == "quick" else 3
    with vlib.Scratch(PID) as wd:
        cfg = "SPECIFICATION Spec\nCONSTANTS\n Hosts <- MCHosts\n MaxLines = %d\nINVARIANTS OnlyTrusted RefusedGetNothing\nPROPERTY RewriteRight\n" % maxlines
        r = vlib.tlc(wd, "MC_KnownHosts", "G.cfg", files={"G.cfg": cfg}, timeout=3300, heap="24g")
        if not r.ok:
            raise vlib.Inconclusive("TLC KnownHosts: %s %s" % (r.violated, (r.error or "")[-1200:]))
        log("TLC KnownHosts MaxLines=%d: %d distinct states; OnlyTrusted, RefusedGetNothing, RewriteRight hold" % (maxlines, r.distinct))
        cases = vlib.read_ndjson(os.path.join(wd, "c17_cases.ndjson"))
        if len(cases) > 30000:
            import random
            cases = random.Random(vlib.seed()).sample(cases, 30000)
        cj, oj = os.path.join(wd, "cases.json"), os.path.join(wd, "out.json")
        json.dump(cases, open(cj, "w"))
        rc, out = vlib.go_test(wd, "./internal/ssh/client", OV, "TestC17Replay", env={"VERIF_CASES": cj, "VERIF_OUT": oj}, timeout=3000)
        if rc != 0 or not os.path.exists(oj):
            raise vlib.Inconclusive("harness failed\n" + out[-2500:])
        res = json.load(open(oj))
        for b in res["bad"] or []:
            V.violation(b["problem"], {"file_kinds": b["case"]["file"], "trustall": b["case"]["trustall"], "answer": b["case"]["answer"],
                                       "proceeded": b["proceeded"], "trusted": b["case"]["proceed"], "before": b["before"], "after": b["after"],
                                       "want_after": b["want_after"]})
        lo = os.path.join(wd, "loop.json")
        rc, out = vlib.go_test(wd, "./internal/ssh/client", OV, "TestC17Loop", env={"VERIF_OUT": lo}, timeout=300)
        if rc != 0 or not os.path.exists(lo):
            raise vlib.Inconclusive("loop harness failed\n" + out[-2500:])
        loop = json.load(open(lo))
        if loop.get("cancelled_pending_host_proceeds"):
            V.violation("a host that was waiting for the prompt when the client was interrupted was treated as trusted", loop)
        if loop.get("cancelled_file"):
            V.violation("an unapproved host was written to the known-hosts file", loop)
        if not loop.get("approved_host_proceeds") or not loop.get("approved_file_has_entry"):
            V.violation("a host approved at the prompt was not trusted / not recorded", loop)
        if loop.get("late_host_proceeds") is False:
            V.violation("an unknown host that shows up 2.6 s after the client started (trust-all) is never dealt with: its dial hangs", loop)
        if loop.get("keyfile_unknown_host_passes_unasked"):
            V.violation("a client started with a private key file of its own accepts an unknown host key without asking", loop)
        nontriv = sum(1 for c in cases if len(c["proceed"]) < 2 or c["after"] != c["file"])
        cov = {"states": r.distinct, "transitions": r.generated, "traces_validated_against_impl": len(cases) + 2,
               "evaluations": res["evaluations"] + 2, "distinct_nontrivial": nontriv,
               "rule": "cases = every known-hosts file of up to MaxLines line kinds (12 kinds for 2 contacted hosts) x trust-all x 5 answers, "
                       "enumerated by TLC with the trusted set and the file after the rewrite; non-trivial = some host is refused or the file "
                       "is rewritten; plus two runs of the real PromptAddHosts loop (cancelled, approved)",
               "exhaustive": True, "samples": [cases[len(cases) // 2], loop]}
        return V.finish(cov, ["the knownhosts matching itself (plain, hashed, multi-host lines) is x/crypto's and trusted; the harness renders real lines for it",
                              "commands are sent only after a successful dial (serverconnection.go): the harness observes the host key callback's verdict"])
