"""C06 - mapreduce accounts for every file of every server under any scheduling.

spec/MaprSched.tla (server half: readers behind the limiter register their channel, the aggregator rotates over the
channels, re-queue goroutines, the exit decision) and spec/MaprClientSched.tla (client half: per-server handlers merging
into the global group set with a try-lock, periodic reporter, final report); TLC checks EveryLineCounted /
EveryLineInFinalResult and termination over all interleavings.  (A) behaviours from TLC -simulate are replayed on the real
code with blocking gates at the trace points (registration, closed-channel decision, re-queue send; lock holder and
message arrivals on the client side); the outcome is the count in the final result against the number of lines, and
termination."""
import json
import os
import random

from concurrent.futures import ThreadPoolExecutor

import vlib
from vlib import log

PID = "C06"
OVS = {"internal/server/handlers/vcommon_test.go": ("common/vcommon_test.go", "handlers"),
       "internal/server/handlers/c06_test.go": "handlers/c06_test.go"}
OVC = {"internal/clients/handlers/vcommon_test.go": ("common/vcommon_test.go", "handlers"),
       "internal/clients/handlers/c06_client_test.go": "chandlers/c06_client_test.go"}


def server_cfg(nfiles, limcap, kf, spec="Spec", inv="EveryLineCounted", prop="Ends"):
    s = ("SPECIFICATION %s\nCONSTANTS\n NFiles = %d\n L = 2\n LimCap = %d\n ChCap = 1\n NQCap = %d\n KF_ExitEarly = %s\n" %
         (spec, nfiles, limcap, nfiles, "TRUE" if kf else "FALSE"))
    if inv:
        s += "INVARIANT %s\n" % inv
    if prop:
        s += "PROPERTY %s\n" % prop
    return s


def client_cfg(servers, nmsgs, kf, spec="Spec", inv="EveryLineInFinalResult", prop="Terminates"):
    s = "SPECIFICATION %s\nCONSTANTS\n Servers <- %s\n NMsgs = %d\n KF_LastMergeSkipped = %s\n" % (spec, servers, nmsgs, "TRUE" if kf else "FALSE")
    if inv:
        s += "INVARIANT %s\n" % inv
    if prop:
        s += "PROPERTY %s\n" % prop
    return s


def session_trace_events(trace):
    """projection of the recorded session trace ("point:file" strings) onto the events of spec/MaprSchedTrace.tla"""
    out = []
    for e in trace:
        point, _, f = e.partition(":")
        if point == "mapr.register":
            out.append({"ev": "regbegin", "f": int(f)})
        elif point == "mapr.registered":
            out.append({"ev": "registered", "f": int(f)})
        elif point == "agg.requeue":
            out.append({"ev": "rqbegin", "f": 0})
        elif point in ("agg.closed", "agg.next", "agg.exit", "agg.swap", "agg.requeued"):
            out.append({"ev": point[4:], "f": 0})
    return out


def validate_session_trace(wd, case, res):
    name = "GMT%d" % case["id"]
    vlib.write_ndjson(os.path.join(wd, name + ".ndjson"), session_trace_events(res["trace"]))
    mod = "---- MODULE %s ----\nEXTENDS MaprSchedTrace\n====\n" % name
    cfg = ('SPECIFICATION TSpec\nCONSTANTS\n NFiles = %d\n L = 1\n LimCap = %d\n ChCap = 1\n NQCap = 100\n KF_ExitEarly = FALSE\n'
           ' TraceFile = "%s.ndjson"\nINVARIANT Report\n' % (case["nfiles"], case["nfiles"], name))
    t = vlib.tlc(wd, name, name + ".cfg", files={name + ".tla": mod, name + ".cfg": cfg}, workers=1, timeout=600, heap="768m",
                 java_opts=["-Dtlc2.tool.impl.Tool.cdot=true"])
    if not t.ok:
        raise vlib.Inconclusive("trace validation run failed for session case %d: %s %s" % (case["id"], t.violated, (t.error or t.out)[-800:]))
    acc = [l for l in t.out.splitlines() if l.startswith('<<"ACCEPTED"')]
    return bool(acc), any('ACCEPTED", TRUE' in l for l in acc), t.distinct


def classify_server(res, nfiles):
    """which named deviation explains a short count: the aggregator exited while a reader had not registered yet, or
    while a channel was in the hands of a re-queue goroutine"""
    registered = 0
    pending_requeue = 0
    for e in res["trace"]:
        name = e.split(":")[0]
        if name == "mapr.registered":
            registered += 1
        elif name == "agg.swap":
            pending_requeue += 1
        elif name == "agg.requeued":
            pending_requeue -= 1
        elif name == "agg.exit":
            if registered < nfiles:
                return "KF_AggExitUnregistered"
            if pending_requeue > 0:
                return "KF_AggExitInFlight"
            return None
    return None


def died_in_mapr(out):
    """index of the runtime's death message when the process died inside dtail's mapreduce code (a data race on the
    group maps shows as 'fatal error: concurrent map ...' or as a panic in the map code), else -1"""
    for mark in ("fatal error:", "panic:"):
        i = out.find(mark)
        if i >= 0 and "dtail/internal/mapr" in out[i:i + 6000]:
            return i
    return -1


def run(tier, replay):
    V = vlib.Verdict(PID, tier)
    kf_exit = ("KF_AggExitUnregistered" in V.kf) or ("KF_AggExitInFlight" in V.kf)
    kf_last = "KF_LastMergeSkipped" in V.kf
    rng = random.Random(vlib.seed())
    states = trans = 0
    with vlib.Scratch(PID) as wd:
        # ---- model checking of the strict designs
        for (nf, lc) in ([(3, 2), (2, 1)] if tier == "quick" else [(3, 2), (2, 1), (4, 2), (3, 1)]):
            r = vlib.tlc(wd, "MC_MaprSched", "G.cfg", files={"G.cfg": server_cfg(nf, lc, False)}, timeout=3300)
            if not r.ok:
                raise vlib.Inconclusive("TLC MaprSched strict: %s %s" % (r.violated, (r.error or "")[-1000:]))
            states += r.distinct
            trans += r.generated
            log("TLC MaprSched NFiles=%d LimCap=%d: %d distinct states; EveryLineCounted and <>exited hold" % (nf, lc, r.distinct))
        for (sv, nm) in ([("MCServers2", 2)] if tier == "quick" else [("MCServers2", 3), ("MCServers3", 2)]):
            r = vlib.tlc(wd, "MC_MaprClientSched", "G.cfg", files={"G.cfg": client_cfg(sv, nm, False)}, timeout=3300)
            if not r.ok:
                raise vlib.Inconclusive("TLC MaprClientSched strict: %s %s" % (r.violated, (r.error or "")[-1000:]))
            states += r.distinct
            trans += r.generated
            log("TLC MaprClientSched %s NMsgs=%d: %d distinct states; EveryLineInFinalResult and termination hold" % (sv, nm, r.distinct))
        if "KF_NoReadableFile" in V.kf:
            # design level: with no file at all the aggregator never gets its first channel - the run does not end
            r0 = vlib.tlc(wd, "MC_MaprSched", "Z.cfg", files={"Z.cfg": server_cfg(0, 1, False, inv="")}, timeout=600)
            if r0.violated != "temporal":
                raise vlib.Inconclusive("the model with NFiles = 0 terminates although KF_NoReadableFile is listed as open (%s)" % r0.violated)
        if kf_exit:
            r = vlib.tlc(wd, "MC_MaprSched", "G.cfg", files={"G.cfg": server_cfg(2, 1, True, prop="")}, timeout=600)
            if r.violated != "EveryLineCounted":
                raise vlib.Inconclusive("server deviation model does not violate EveryLineCounted")
        if kf_last:
            r = vlib.tlc(wd, "MC_MaprClientSched", "G.cfg", files={"G.cfg": client_cfg("MCServers2", 2, True, prop="")}, timeout=600)
            if r.violated != "EveryLineInFinalResult":
                raise vlib.Inconclusive("client deviation model does not violate EveryLineInFinalResult")
        # ---- server half: behaviours -> gated replay
        cases = []
        dcases = []
        nsim = 40 if tier == "quick" else 300
        for (nf, lc) in [(2, 1), (3, 2), (3, 1), (4, 2)]:
            rs = vlib.tlc(wd, "MC_MaprSchedGen", "S.cfg", files={"S.cfg": server_cfg(nf, lc, kf_exit, spec="GSpec", inv="EmitSched", prop="")},
                          timeout=600, workers=1, simulate="num=%d" % nsim, extra=["-depth", "120", "-seed", str(vlib.seed())])
            seen = set()
            for line in rs.out.splitlines():
                if line.startswith('"{'):
                    rec = json.loads(json.loads(line))
                    key = json.dumps(rec["sched"])
                    if key in seen:
                        continue
                    seen.add(key)
                    k = rng.choice([1, 1, 60])
                    cases.append({"id": 0, "nfiles": nf, "lines": [2 * k + rng.choice([0, 0, 1]) for _ in range(nf)], "limit": lc,
                                  "sched": [x for x in rec["sched"] if x["a"] in ("register", "closed", "requeue")], "free": False,
                                  "model_counted": rec["counted"]})
                    dcases.append({"id": len(dcases) + 1, "nfiles": nf, "l": 2, "chcap": 1, "sched": rec["sched"], "big": False})
        if len(cases) < 10:
            raise vlib.Inconclusive("too few behaviours from TLC: %d" % len(cases))
        rng.shuffle(cases)
        cases = cases[:(60 if tier == "quick" else 500)]
        for i in range(10 if tier == "quick" else 60):   # free runs, also with more files than the model has
            nf = rng.choice([1, 2, 5, 12, 30])
            cases.append({"id": 0, "nfiles": nf, "lines": [rng.choice([0, 1, 3, 150]) for _ in range(nf)], "limit": rng.choice([1, 2, 4]),
                          "sched": [], "free": True, "model_counted": -1})
        # more files than NextLinesCh holds (100), all admitted at once
        # the periodic serialisation in the middle of a read (interval 1 s), many groups, a slow consumer
        for n in ([300] if tier == "quick" else [300, 45, 1200]):
            cases.append({"id": 0, "nfiles": 1, "lines": [n], "limit": 2, "sched": [], "free": True, "interim": True, "model_counted": -1})
        cases.append({"id": 0, "nfiles": 1, "lines": [300], "limit": 2, "sched": [], "free": True, "interim": True, "same": True, "model_counted": -1})
        cases.append({"id": 0, "nfiles": 130, "lines": [rng.choice([2, 3, 5]) for _ in range(130)], "limit": 130, "sched": [], "free": True, "model_counted": -1})
        # a session in which nothing can be read at all (open finding KF_NoReadableFile)
        cases.append({"id": 0, "nfiles": 0, "lines": [], "limit": 2, "sched": [], "free": True, "onlydir": True, "model_counted": -1})
        for c in cases:
            c["nofinalnl"] = rng.random() < 0.4
            c["broken"] = bool(c.get("free")) and not c.get("interim") and not c.get("onlydir") and rng.random() < 0.6
        for i, c in enumerate(cases):
            c["id"] = i + 1
        cj, oj = os.path.join(wd, "cases.json"), os.path.join(wd, "out.json")
        json.dump(cases, open(cj, "w"))
        rc, out = vlib.go_test(wd, "./internal/server/handlers", OVS, "TestC06Server", env={"VERIF_CASES": cj, "VERIF_OUT": oj}, timeout=3300)
        if rc != 0 and vlib.died_in_dtail(out) >= 0:
            i = vlib.died_in_dtail(out)
            V.violation("the server process died during a mapreduce session: " + out[i:i + 100].splitlines()[0], {"output": out[i:i + 1800]})
            return V.finish({"states": states, "transitions": trans, "traces_validated_against_impl": 0, "evaluations": 0, "distinct_nontrivial": 0,
                             "rule": "the run ended with the death of the server process", "exhaustive": False, "samples": []}, [])
        if rc != 0 or not os.path.exists(oj):
            raise vlib.Inconclusive("server harness failed\n" + out[-2500:])
        results = json.load(open(oj))
        followed_full = 0
        for c, res in zip(cases, results):
            if not c["free"] and res["followed"] + res.get("skipped", 0) == len(c["sched"]):
                followed_full += 1
            elif not c["free"]:
                V.diverge("case %d: %s" % (c["id"], res["diverged"]))
            ok = res["counted"] == res["total"] and res["ended"]
            if ok:
                continue
            desc = {"case": {k: c[k] for k in ("id", "nfiles", "lines", "limit", "free")}, "sched": c["sched"], "counted": res["counted"],
                    "total": res["total"], "ended": res["ended"], "followed": res["followed"], "trace_head": res["trace"][:60]}
            kf = classify_server(res, c["nfiles"])
            if c.get("onlydir") and res["total"] == 0 and not res["ended"] and not any(t.startswith("mapr.register") for t in res["trace"]):
                kf = "KF_NoReadableFile"
            if kf and kf in V.kf:
                V.known(kf, desc)
            else:
                V.violation("final count %d of %d lines, session ended=%s" % (res["counted"], res["total"], res["ended"]), desc)
        # ---- (B) the recorded traces of the sessions against MaprSchedTrace (registration, rotation, re-queue, exit decision)
        tv_done = tv_acc = tv_states = 0
        binding_selftest = "not run"
        tvjobs = [(c, res) for c, res in zip(cases, results)
                  if 0 < c["nfiles"] <= 5 and not c.get("interim") and not c.get("broken") and min(c["lines"]) > 0 and 0 < len(res.get("trace") or []) < 400]
        if tvjobs:
            vlib.tlc(wd, "MC_MaprSched", "W.cfg", files={"W.cfg": server_cfg(2, 1, False, prop="")}, timeout=600)   # copies spec/ once
            with ThreadPoolExecutor(max_workers=max(2, vlib.NCPU // 2)) as ex:
                tvres = list(ex.map(lambda cr: validate_session_trace(wd, cr[0], cr[1]), tvjobs))
            for (c, res), (acc, refok, distinct) in zip(tvjobs, tvres):
                tv_done += 1
                tv_states += distinct
                good = res["counted"] == res["total"] and res["ended"]
                if acc:
                    tv_acc += 1
                elif good:
                    V.diverge("session case %d: result complete but the recorded trace is not a behaviour of MaprSchedTrace" % c["id"])
                    if os.environ.get("VERIF_DEBUG"):
                        import shutil
                        shutil.copy(os.path.join(wd, "GMT%d.ndjson" % c["id"]), "/tmp/c06_rejected_%d.ndjson" % c["id"])
            log("trace validation: %d of %d session traces accepted by MaprSchedTrace (%d states)" % (tv_acc, tv_done, tv_states))
            # binding self-test: an accepted trace in which the exit decision is moved in front of a registration must be rejected
            for (c, res), (acc, _, _) in zip(tvjobs, tvres):
                evs = session_trace_events(res["trace"])
                regs = [i for i, e in enumerate(evs) if e["ev"] == "registered"]
                exits = [i for i, e in enumerate(evs) if e["ev"] == "exit"]
                if acc and c["nfiles"] >= 2 and len(regs) >= 2 and exits and exits[0] > regs[-1]:
                    bad = [e for i, e in enumerate(evs) if i != exits[0]]
                    bad.insert(regs[-1], evs[exits[0]])
                    fake = dict(c, id=900000 + c["id"])
                    acc2, _, _ = validate_session_trace(wd, fake, {"trace": [{"registered": "mapr.registered:%d" % e["f"], "regbegin": "mapr.register:%d" % e["f"], "rqbegin": "agg.requeue:0"}.get(e["ev"], "agg." + e["ev"] + ":0") for e in bad]})
                    if acc2:
                        raise vlib.Inconclusive("MaprSchedTrace accepts a trace whose exit decision precedes a registration: the trace spec does not bind")
                    binding_selftest = "corrupted trace (exit before the last registration) rejected"
                    break
            else:
                binding_selftest = "no suitable trace in this run"
        # ---- server half, direct mode: the harness plays the readers, every model step is forced
        rng.shuffle(dcases)
        dcases = dcases[:(80 if tier == "quick" else 800)]
        dcases.append({"id": 0, "nfiles": 120, "l": 5, "chcap": 100, "sched": [], "big": True})
        for i, c in enumerate(dcases):
            c["id"] = i + 1
        OVD = {"internal/mapr/server/vcommon_test.go": ("common/vcommon_test.go", "server"),
               "internal/mapr/server/c06_direct_test.go": "maprserver/c06_direct_test.go"}
        dj, do = os.path.join(wd, "dcases.json"), os.path.join(wd, "dout.json")
        json.dump(dcases, open(dj, "w"))
        rc, out = vlib.go_test(wd, "./internal/mapr/server", OVD, "TestC06Direct", env={"VERIF_CASES": dj, "VERIF_OUT": do}, timeout=1500)
        if rc != 0 or not os.path.exists(do):
            raise vlib.Inconclusive("direct harness failed\n" + out[-2500:])
        dres = json.load(open(do))
        dfollowed = 0
        for c, res in zip(dcases, dres):
            if res["diverged"]:
                V.diverge("direct case %d: %s" % (c["id"], res["diverged"]))
            else:
                dfollowed += 1
            if res["counted"] != res["total"] or not res["ended"]:
                desc = {"case": {k: c[k] for k in ("id", "nfiles", "l", "big")}, "sched": c["sched"][:40], "counted": res["counted"], "total": res["total"], "ended": res["ended"]}
                if kf_exit:
                    V.known("KF_AggExitInFlight" if "KF_AggExitInFlight" in V.kf else "KF_AggExitUnregistered", desc)
                else:
                    V.violation("aggregator (direct mode): counted %d of %d lines, ended=%s" % (res["counted"], res["total"], res["ended"]), desc)
        # ---- client half
        ccases = []
        for (sv, nsrv, nm) in [("MCServers2", 2, 2), ("MCServers3", 3, 2)]:
            rs = vlib.tlc(wd, "MC_MaprClientSchedGen", "S.cfg",
                          files={"S.cfg": client_cfg(sv, nm, kf_last, spec="GSpec", inv="EmitSched", prop="")},
                          timeout=600, workers=1, simulate="num=%d" % nsim, extra=["-depth", "120", "-seed", str(vlib.seed())])
            seen = set()
            for line in rs.out.splitlines():
                if line.startswith('"{'):
                    rec = json.loads(json.loads(line))
                    key = json.dumps(rec["sched"])
                    if key not in seen:
                        seen.add(key)
                        ccases.append({"id": len(ccases) + 1, "servers": nsrv, "nmsgs": nm, "sched": rec["sched"], "model_final": rec["final"]})
        if len(ccases) < 5:
            raise vlib.Inconclusive("too few client behaviours from TLC: %d" % len(ccases))
        rng.shuffle(ccases)
        ccases = ccases[:(60 if tier == "quick" else 500)]
        for i in range(6 if tier == "quick" else 40):
            ccases.append({"id": len(ccases) + 1, "servers": rng.choice([1, 4, 24]), "nmsgs": rng.choice([1, 5, 200]), "sched": [], "model_final": -1, "free": True})
        cj2, oj2 = os.path.join(wd, "ccases.json"), os.path.join(wd, "cout.json")
        json.dump(ccases, open(cj2, "w"))
        rc, out = vlib.go_test(wd, "./internal/clients/handlers", OVC, "TestC06Client", env={"VERIF_CASES": cj2, "VERIF_OUT": oj2}, timeout=3300)
        if rc != 0 or not os.path.exists(oj2):
            raise vlib.Inconclusive("client harness failed\n" + out[-2500:])
        cresults = json.load(open(oj2))
        for c, res in zip(ccases, cresults):
            if res.get("problem"):
                V.diverge("client case %d: %s" % (c["id"], res["problem"]))
                continue
            if res["final"] == res["total"]:
                continue
            desc = {"case": c, "final": res["final"], "total": res["total"], "skipped_merges": res["skipped"], "last_skipped": res["last_skipped"]}
            if kf_last and res["last_skipped"] > 0:
                V.known("KF_LastMergeSkipped", desc)
            else:
                V.violation("the final result counts %d of %d lines" % (res["final"], res["total"]), desc)
        # the periodic reporter rendering interim results while the servers' handlers are still merging
        ro = os.path.join(wd, "reporter.json")
        rc, out = vlib.go_test(wd, "./internal/clients/handlers", OVC, "TestC06Reporter", env={"VERIF_OUT": ro, "VERIF_N": 3000 if tier == "quick" else 40000}, timeout=900)
        if rc != 0 and died_in_mapr(out) >= 0:
            i = died_in_mapr(out)
            V.violation("the client process died while the reporter rendered an interim result: " + out[i:i + 60].splitlines()[0],
                        {"output": out[i:i + 1500]})
            rep = {"expected": 0, "counted": 0, "reports": 0}
        elif rc != 0 or not os.path.exists(ro):
            raise vlib.Inconclusive("reporter harness failed\n" + out[-2500:])
        else:
            rep = json.load(open(ro))
            if rep["counted"] != rep["expected"]:
                V.violation("with a reporter rendering interim results the final result counts %d of %d lines" % (rep["counted"], rep["expected"]), rep)
        # the final report of the client while an interim report is in progress
        ovf = {"internal/clients/vcommon_test.go": ("common/vcommon_test.go", "clients"), "internal/clients/c06_final_test.go": "clients/c06_final_test.go"}
        fo = os.path.join(wd, "final.json")
        rc, out = vlib.go_test(wd, "./internal/clients", ovf, "TestC06FinalReport", env={"VERIF_OUT": fo, "VERIF_N": 300000 if tier == "quick" else 900000}, timeout=900)
        if rc != 0 or not os.path.exists(fo):
            raise vlib.Inconclusive("final report harness failed\n" + out[-2500:])
        fin = json.load(open(fo))
        if not fin["final_report_returned"]:
            V.violation("the client's final report did not return within 120 s", fin)
        elif fin["rows_in_outfile"] != fin["groups"]:
            V.violation("after the client's final report (made while an interim report was in progress) the outfile holds %d of %d groups" % (fin["rows_in_outfile"], fin["groups"]), fin)
        if not fin["interim_seen_in_progress"]:
            V.diverge("final report stage: no interim report was seen in progress (the final report ran alone)")
        # many servers reporting the same groups at the same moment
        mo = os.path.join(wd, "mergestress.json")
        rc, out = vlib.go_test(wd, "./internal/clients/handlers", OVC, "TestC06MergeStress", env={"VERIF_OUT": mo, "VERIF_N": 4000 if tier == "quick" else 60000}, timeout=900)
        if rc != 0 and died_in_mapr(out) >= 0:
            i = died_in_mapr(out)
            V.violation("the client process died while 16 handlers merged partial results for the same groups: " + out[i:i + 60].splitlines()[0],
                        {"output": out[i:i + 1500]})
        elif rc != 0 or not os.path.exists(mo):
            raise vlib.Inconclusive("merge stress harness failed\n" + out[-2500:])
        else:
            ms = json.load(open(mo))
            if ms["bad"]:
                V.violation("16 handlers merging partial results for the same groups: " + ms["bad"], ms)
        cov = {"interim_reports_during_merges": rep["reports"], "states": states, "transitions": trans, "session_traces_checked_against_MaprSchedTrace": tv_done, "session_traces_accepted": tv_acc, "trace_binding_selftest": binding_selftest, "traces_validated_against_impl": followed_full + dfollowed + len(ccases),
               "evaluations": len(cases) + len(dcases) + len(ccases),
               "distinct_nontrivial": sum(1 for c in cases if not c["free"]) + sum(1 for c in ccases if c["sched"]),
               "rule": "server cases = distinct behaviours of MaprSchedGen (order of registration / closed-channel decision / re-queue steps) from "
                       "TLC -simulate for (files, limit) in (2,1),(3,2),(3,1),(4,2), replayed with blocking gates, plus free runs with up to 30 "
                       "files; client cases = behaviours of MaprClientSchedGen (message arrivals and lock-holding periods) for 2-3 servers plus "
                       "free concurrent runs with up to 24 servers; non-trivial = gated replays",
               "exhaustive": False, "server_behaviours_followed_to_the_end": followed_full, "direct_behaviours_followed_to_the_end": dfollowed,
               "samples": [{k: cases[0][k] for k in ("nfiles", "lines", "limit", "sched")}, {"client": ccases[0]}]}
        return V.finish(cov, ["a gate that no goroutine reaches within 400 ms ends the replay of that behaviour (divergence, not a violation); the outcome is still checked",
                              "the client half feeds AGGREGATE messages directly into MaprHandler.Write (no transport)"])
