"""C08 - users read only files their permission rules allow.

spec/Perm.tla: abstract file system (symlinks to files/dirs/links/outside, '..', FIFO, dir, dangling link), ordered
allow/deny rules (bare or readfiles:-prefixed, one pattern containing ':'), Ref = regular file after full resolution and
last match wins.  TLC enumerates every rule list; (A) each is installed in the real config and every request path is
checked with the real HasFilePermission() (absolute, relative, per-user), and a sample runs full server sessions
(explicit paths and globs) comparing the disclosed file contents with Ref."""
import json
import os
import random

import vlib
from vlib import log

PID = "C08"
PAT = {"all": "^/.*", "pub": "^ROOT/pub/", "secret": "^ROOT/pub/secret[[:digit:]]\\.log$", "key": "key\\.txt$", "alog": "^ROOT/pub/a\\.log$"}


def rule_str(r):
    s = PAT[r["pat"]]
    if r["deny"]:
        s = "!" + s
    if r["prefixed"]:
        s = "readfiles:" + s
    return s


def run(tier, replay):
    V = vlib.Verdict(PID, tier)
    kf_open = "KF_ColonInBarePattern" in V.kf
    maxrules = 2 if tier == "quick" else 3
    rng = random.Random(vlib.seed())
    with vlib.Scratch(PID) as wd:
        mc = open(os.path.join(vlib.SPEC, "MC_Perm.tla")).read()
        cfg = ("SPECIFICATION Spec\nCONSTANTS\n  Paths <- MCPaths\n  ResolvesTo <- MCResolves\n  Kind <- MCKind\n  Patterns <- MCPatterns\n"
               "  Matches <- MCMatches\n  HasColon <- MCColon\n  MaxRules = %d\n  KF_ColonInBarePattern = %s\nINVARIANT %s\n"
               % (maxrules, "TRUE" if kf_open else "FALSE", "OnlyColonDiffers" if kf_open else "ImplIsRef"))
        r = vlib.tlc(wd, "MC_Perm", "G.cfg", files={"G.cfg": cfg}, timeout=3000)
        if not r.ok:
            raise vlib.Inconclusive("TLC Perm: %s %s" % (r.violated, (r.error or "")[-1500:]))
        log("TLC Perm MaxRules=%d: %d states, Impl=Ref %s" % (maxrules, r.distinct, "outside the named deviation" if kf_open else "everywhere"))
        cases = vlib.read_ndjson(os.path.join(wd, "c08_cases.ndjson"))
        cj, oj = os.path.join(wd, "cases.json"), os.path.join(wd, "out.json")
        json.dump(cases, open(cj, "w"))
        ov = {"internal/user/server/vcommon_test.go": ("common/vcommon_test.go", "server"),
              "internal/user/server/c08_test.go": "userserver/c08_test.go"}
        rc, out = vlib.go_test(wd, "./internal/user/server", ov, "TestC08Replay", env={"VERIF_CASES": cj, "VERIF_OUT": oj}, timeout=3000)
        if rc != 0 or not os.path.exists(oj):
            raise vlib.Inconclusive("harness failed\n" + out[-2500:])
        res = json.load(open(oj))
        evals = res["evaluations"]
        for b in res["bad"] or []:
            if kf_open and sorted(b["got"]) == sorted(b["impl_model"]):
                V.known("KF_ColonInBarePattern", b)
            else:
                V.violation("HasFilePermission verdicts differ from Ref (%s paths): served %s, Ref allows %s" % (b["form"], b["got"], b["want"]), b)
        # session level on a sample
        interesting = [c for c in cases if 0 < len(c["served"]) < 9]
        rng.shuffle(interesting)
        sample = interesting[:(25 if tier == "quick" else 700)]
        sj, so = os.path.join(wd, "scases.json"), os.path.join(wd, "sout.json")
        json.dump([{"rules": [rule_str(x) for x in c["rules"]], "served": c["served"]} for c in sample], open(sj, "w"))
        ov2 = {"internal/server/handlers/vcommon_test.go": ("common/vcommon_test.go", "handlers"),
               "internal/server/handlers/c08_session_test.go": "handlers/c08_session_test.go"}
        rc, out = vlib.go_test(wd, "./internal/server/handlers", ov2, "TestC08Session", env={"VERIF_CASES": sj, "VERIF_OUT": so}, timeout=3000)
        if rc != 0 or not os.path.exists(so):
            raise vlib.Inconclusive("session harness failed\n" + out[-2500:])
        sres = json.load(open(so))
        evals += sres["evaluations"]
        for b in sres["bad"] or []:
            if b["problem"]:
                V.violation("session: " + b["problem"], b)
            elif kf_open and any((":" in x.split("readfiles:")[-1]) and not x.startswith("readfiles:") for x in b["rules"]):
                V.known("KF_ColonInBarePattern", b)
            else:
                V.violation("a session disclosed the content of %s, Ref allows %s for request %s" % (b["disclosed"], b["want"], b["request"]), b)
        nontriv = sum(1 for c in cases if 0 < len(c["served"]) < 9)
        cov = {"states": r.distinct, "transitions": r.generated, "traces_validated_against_impl": len(cases) + len(sample),
               "evaluations": evals, "distinct_nontrivial": nontriv,
               "rule": "cases = every rule list up to MaxRules over 5 patterns x allow/deny x bare/prefixed (TLC) x 13 request paths "
                       "(+ relative and per-user forms for every 4th list, + sessions with globs on a sample); non-trivial = the rule "
                       "list allows some but not all regular-file requests",
               "exhaustive": True, "samples": [cases[len(cases) // 3], {"session_sample": sample[0] if sample else None}], "maxrules": maxrules}
        return V.finish(cov, ["patterns are abstracted to the set of resolved paths they match; Go regexp is trusted",
                              "FIFO is checked at HasFilePermission level only (a session opening it would block)",
                              "OS-level ACL checks (linuxacl build tag) are outside the default build"])
