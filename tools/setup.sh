#!/bin/sh
# Offline setup: nothing to download. Warm the Go build cache for /repo with and without the hook tag and check the tools.
set -e
export GOFLAGS=-mod=mod GOPROXY=off GOSUMDB=off GOTOOLCHAIN=local
cd /repo
go build ./... 
go build -tags verif ./...
go test -vet=off -tags verif -count=1 -run '^$' ./internal/... >/dev/null 2>&1 || true
java -cp /opt/veriftools/tla/tla2tools.jar tlc2.TLC -h >/dev/null 2>&1 || true
python3 -c 'import json,sys' 
echo setup ok
