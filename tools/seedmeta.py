#!/usr/bin/env python3
"""seedmeta.py <seeded-id> <text>: record which check caught (or missed) a seeded change."""
import json, sys
p = "/verif/seeded/%s/meta.json" % sys.argv[1]
m = json.load(open(p)); m["detected_by"] = sys.argv[2]; json.dump(m, open(p, "w"), indent=1)
