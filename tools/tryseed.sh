#!/bin/bash
# tryseed.sh <PROP> <variant> [check ids...]: apply a seeded change to /repo, run the checks, undo it.
P=$1; V=$2; shift 2
CHECKS=${@:-$P}
PATCH=/verif/seeded/$P$V/patch.diff
[ -f "$PATCH" ] || PATCH=${MUT:-/tmp/mut}/$P/out/$V/patch.diff
cd /repo
if [ -n "$(git status --porcelain)" ]; then echo "/repo not clean"; exit 2; fi
if ! git apply "$PATCH" 2>/tmp/tryseed.err; then
  echo "patch does not apply cleanly ($PATCH):"; cat /tmp/tryseed.err | head -5; exit 3
fi
export GOFLAGS=-mod=mod GOPROXY=off GOSUMDB=off GOTOOLCHAIN=local
go build ./... || echo "BUILD FAILS"
for c in $CHECKS; do
  echo "--- ./check $c quick on seeded $P$V"
  (cd /verif && timeout 1800 ./check $c quick 2>&1 | cut -c1-400 | tail -${TAILN:-4}; echo "exit=${PIPESTATUS[0]}")
done
git -C /repo checkout -- . ; git -C /repo clean -fdq -- internal cmd >/dev/null 2>&1
git -C /repo status --short
