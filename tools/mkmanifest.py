#!/usr/bin/env python3
"""Regenerates /verif/MANIFEST.json from the table below (kept in one place so the manifest stays valid)."""
import json
import os
import subprocess

VERIF = os.path.dirname(os.path.dirname(os.path.abspath(__file__)))

# property id -> dict(level_text, level_note, technique, design_ref); only built checks are listed here
CHECKS = {}

NOT_APPLICABLE = {}

ALL = ["C%02d" % i for i in range(1, 19)]


def load_tables():
    path = os.path.join(VERIF, "tools", "manifest_table.json")
    t = json.load(open(path))
    return t["checks"], t.get("not_applicable", {})


def main():
    checks, na = load_tables()
    hooks_commits = subprocess.run(
        ["git", "-C", "/repo", "log", "--format=%H %s", "--grep=^verif:"],
        stdout=subprocess.PIPE, text=True).stdout.strip().splitlines()
    m = {
        "version": 1,
        "setup_cmd": "sh tools/setup.sh",
        "hooks": {
            "guard": "verif",
            "enable": "go test/build -tags verif (plus -overlay <generated json> to inject the /verif/harness sources "
                      "into /repo packages); trace points are calls to internal/vhook.At(...)",
            "baseline_off_cmd": "cd /repo && GOFLAGS=-mod=mod GOPROXY=off GOSUMDB=off GOTOOLCHAIN=local "
                                "go test -json -vet=off -count=1 -timeout 25m ./...",
            "source_commits": [l.split()[0] for l in hooks_commits],
            "add_only": False,
        },
        "engines": [
            {"name": "tlc", "path": "/opt/veriftools/tla/tla2tools.jar",
             "serves_properties": sorted(checks.keys()),
             "kind_free_text": "explicit-state model checker for the TLA+ specification suite in /verif/spec; "
                               "also evaluates the Ref oracles on records produced by the real code and validates recorded traces"},
            {"name": "go-harness", "path": "/verif/harness",
             "serves_properties": sorted(checks.keys()),
             "kind_free_text": "Go test files overlaid into /repo packages (go test -overlay, build tag verif): replay of "
                               "TLC-generated cases/schedules into the real code, trace recording through internal/vhook"},
        ],
        "checks": [],
        "notes": "hooks.add_only is false for ONE line: the one-line closure 'go func() { a.NextLinesCh <- oldLinesCh }()' in mapr/server/aggregate.go was expanded to several lines to carry two trace points (identical behaviour with the tag off); every other hook is an added line. Driver: ./check <ID> quick|thorough. Verdicts come only from the behaviour of the real code "
                 "(see DESIGN.md 2.3); exit 2 = inconclusive (build failure, timeout), never a violation.",
        "not_applicable": [],
    }
    for pid in ALL:
        if pid in checks:
            c = checks[pid]
            m["checks"].append({
                "property_id": pid,
                "quick_cmd": "./check %s quick" % pid,
                "thorough_cmd": "./check %s thorough" % pid,
                "evidence_file": "/verif/evidence/%s.json" % pid,
                "replay_cmd_template": "./check %s quick --replay {path}" % pid,
                "engine": "tlc",
                "level_claimed": {
                    "category": c.get("category", "model_checking"),
                    "text": c["level_text"],
                    "design_ref": c.get("design_ref", "DESIGN.md section 4, " + pid),
                },
                "level_note": c["level_note"],
                "technique": c["technique"],
            })
        else:
            m["not_applicable"].append({
                "property_id": pid,
                "reason": na.get(pid, "check not built yet (work in progress; the design in DESIGN.md section 4 applies)"),
            })
    with open(os.path.join(VERIF, "MANIFEST.json"), "w") as fh:
        json.dump(m, fh, indent=1)
    print("MANIFEST.json: %d checks, %d not_applicable" % (len(m["checks"]), len(m["not_applicable"])))


if __name__ == "__main__":
    main()
