"""End-to-end SSH stage shared by C01, C02 and C07: real dserver processes (one per "host", distinct host names through
DTAIL_HOSTNAME_OVERRIDE, own working directory with cache/<user>.authorized_keys and a generated host key) and the real
dcat / dgrep binaries connecting over SSH on 127.0.0.1 with a generated key.  Nothing is hooked or gated here: the
transport is the real one (server.go copy loops, SSH channel windows, connectors/serverconnection.go); the pace is set
only from outside, by how fast the consumer reads the client's stdout.  Outputs are judged by the same Ref as the gated
replays."""
import getpass
import json
import os
import socket
import subprocess
import time

import vlib

OVK = {"internal/ssh/client/vcommon_test.go": ("common/vcommon_test.go", "client"),
       "internal/ssh/client/e2e_keygen_test.go": "e2e/keygen_test.go"}


_BINS = {}


def free_port():
    s = socket.socket()
    s.bind(("127.0.0.1", 0))
    p = s.getsockname()[1]
    s.close()
    return p


class Cluster:
    def __init__(self, wd, nservers, server_cfg=None):
        os.makedirs(wd, exist_ok=True)
        self.wd = os.path.join(wd, "e2e")
        os.makedirs(self.wd, exist_ok=True)
        self.user = getpass.getuser()
        self.bins = {}
        for b in ("dserver", "dcat", "dgrep"):
            if b not in _BINS or not os.path.exists(_BINS[b]):      # built once per check run (from /repo's working tree)
                _BINS[b] = vlib.go_build(wd, "./cmd/" + b, os.path.join(self.wd, b), tags="")
            self.bins[b] = _BINS[b]
        self.key = os.path.join(self.wd, "id_rsa")
        if not os.path.exists(self.key):
            rc, out = vlib.go_test(wd, "./internal/ssh/client", OVK, "TestE2EKeygen", env={"VERIF_KEY": self.key}, timeout=300)
            if rc != 0 or not os.path.exists(self.key + ".pub"):
                raise vlib.Inconclusive("e2e key generation failed\n" + out[-1500:])
        os.makedirs(os.path.join(self.wd, ".ssh"), exist_ok=True)
        open(os.path.join(self.wd, ".ssh", "known_hosts"), "a").close()
        self.servers = []
        self.procs = []
        for i in range(nservers):
            d = os.path.join(self.wd, "srv%d" % (i + 1))
            os.makedirs(os.path.join(d, "cache"), exist_ok=True)
            os.makedirs(os.path.join(d, "log"), exist_ok=True)
            with open(os.path.join(d, "cache", self.user + ".authorized_keys"), "w") as fh:
                fh.write(open(self.key + ".pub").read())
            cfgp = os.path.join(d, "dtail.json")
            cfg = {"Server": dict({"SSHBindAddress": "127.0.0.1"}, **(server_cfg or {}))}
            json.dump(cfg, open(cfgp, "w"))
            port = free_port()
            env = vlib.goenv({"DTAIL_HOSTNAME_OVERRIDE": "host%s" % "ABCDEFGH"[i], "HOME": d})
            drop = {}
            if os.geteuid() == 0:
                # dserver refuses to run as root: drop to an unprivileged account for the server processes
                import pwd
                pw = pwd.getpwnam("daemon") if any(e.pw_name == "daemon" for e in pwd.getpwall()) else pwd.getpwnam("nobody")
                drop = {"user": pw.pw_uid, "group": pw.pw_gid, "extra_groups": []}
                for root, dirs, files in os.walk(d):
                    os.chown(root, pw.pw_uid, pw.pw_gid)
                    for f in files:
                        os.chown(os.path.join(root, f), pw.pw_uid, pw.pw_gid)
                for anc in (wd, self.wd):
                    os.chmod(anc, 0o755)
            p = subprocess.Popen([self.bins["dserver"], "--cfg", cfgp, "--port", str(port), "--logDir", os.path.join(d, "log"), "--logger", "file",
                                  "--bindAddress", "127.0.0.1"], cwd=d, env=env, stdin=subprocess.DEVNULL,
                                 stdout=open(os.path.join(d, "stdout.txt"), "wb"), stderr=subprocess.STDOUT, **drop)
            self.procs.append(p)
            self.servers.append({"host": "host%s" % "ABCDEFGH"[i], "port": port, "dir": d})
        deadline = time.time() + 20
        for s in self.servers:
            while time.time() < deadline:
                try:
                    c = socket.create_connection(("127.0.0.1", s["port"]), timeout=0.3)
                    c.close()
                    break
                except OSError:
                    time.sleep(0.05)
            else:
                self.stop()
                raise vlib.Inconclusive("e2e: dserver on port %d did not come up" % s["port"])

    def client_cmd(self, tool, files, servers=None, extra=None):
        sv = ",".join("127.0.0.1:%d" % s["port"] for s in (servers or self.servers))
        return [self.bins[tool], "--servers", sv, "--files", files, "--key", self.key, "--trustAllHosts", "--noColor",
                "--cfg", "none", "--logDir", os.path.join(self.wd, "clientlog"), "--user", self.user] + (extra or [])

    def run(self, tool, files, servers=None, extra=None, timeout=120, stall=0.0):
        """runs a client; with stall > 0 its stdout is not read for that many seconds first (a slow consumer)"""
        env = vlib.goenv({"HOME": self.wd})
        p = subprocess.Popen(self.client_cmd(tool, files, servers, extra), cwd=self.wd, env=env, stdin=subprocess.DEVNULL,
                             stdout=subprocess.PIPE, stderr=subprocess.PIPE)
        if stall:
            time.sleep(stall)
        try:
            out, err = p.communicate(timeout=timeout)
        except subprocess.TimeoutExpired:
            p.kill()
            out, err = p.communicate()
            return None, out, err
        return p.returncode, out, err

    def alive(self):
        return [p.poll() is None for p in self.procs]

    def stop(self):
        for p in self.procs:
            if p.poll() is None:
                p.terminate()
        for p in self.procs:
            try:
                p.wait(timeout=5)
            except subprocess.TimeoutExpired:
                p.kill()
        self.procs = []


# ----------------------------------------------------------------------------- stages

MAXLINE = 1024 * 1024    # config default Server.MaxLineLength: a longer line is cut there (and the server warns once per file)


def _mkfiles(d, rng, nfiles, maxlines, long_lines=True, huge=False):
    """files f1.log..: lines of printable text with '|', ';', blanks, tabs, UTF-8 (no 0xAC byte, that is C01's open finding),
    some far longer than one transport read; returns {name: [line bytes without newline]}"""
    os.makedirs(d, exist_ok=True)
    src = {}
    alphabet = "abcxyz019 |;:%\\\t=,.-_/#'\"()[]{}<>!?&*+~^$@" + "é✓日"
    for i in range(nfiles):
        name = "f%d.log" % (i + 1)
        lines = []
        for k in range(rng.randint(1, maxlines)):
            n = rng.choice([0, 1, 7, 40, 40, 200])
            if long_lines and rng.random() < 0.04:
                n = rng.choice([33000, 70000, 140000])
            body = "".join(rng.choice(alphabet) for _ in range(min(n, 300)))
            if n > 300:
                body = (body * (n // max(1, len(body)) + 1))[:n]
            lines.append(("%s/%d:" % (name, k + 1) + body).encode())
        raw = list(lines)
        if huge and i == 0:
            # one line beyond MaxLineLength in the middle of the file: delivered as two numbered lines, announced by a server
            # message of its own (which must stay a line of its own)
            big = ("%s/HUGE:" % name).encode() + b"h" * (MAXLINE + 4321)
            at = len(lines) // 2
            raw = lines[:at] + [big] + lines[at:]
            lines = lines[:at] + [big[:MAXLINE], big[MAXLINE:]] + lines[at:]
        src[name] = lines
        with open(os.path.join(d, name), "wb") as fh:
            fh.write(b"\n".join(raw) + b"\n")
        os.chmod(os.path.join(d, name), 0o644)
    os.chmod(d, 0o755)
    return src


def check_remote_records(out, hosts, src, expect_all=True):
    """every output line is exactly one line of one source, labelled host | file id | running number; per-source order"""
    bad = []
    seen = {}
    for rec in out.split(b"\n"):
        if not rec:
            continue
        if rec.startswith(b"CLIENT|") or rec.startswith(b"SERVER|"):
            # a message of the client or of a server is a line of its own as well
            if rec.count(b"SERVER|host") + rec.count(b"REMOTE|host") > 1 or (rec.startswith(b"CLIENT|") and b"REMOTE|host" in rec):
                bad.append("two messages on one output line: %r ... %r" % (rec[:80], rec[-60:]))
            continue
        f = rec.split(b"|", 5)
        if len(f) != 6 or f[0] != b"REMOTE":
            bad.append("not a REMOTE record: %r" % rec[:100])
            continue
        host, fid, content = f[1].decode(), f[4].decode(), f[5]
        try:
            n = int(f[3].decode().strip())
        except ValueError:
            bad.append("record without a line number: %r" % rec[:100])
            continue
        if host not in hosts or fid not in src:
            bad.append("record labelled with an unknown source %s|%s" % (host, fid))
        elif n < 1 or n > len(src[fid]) or src[fid][n - 1] != content:
            bad.append("record %s|%s #%d is not line %d of that file (%d bytes): %r" % (host, fid, n, n, len(content), content[:60]))
        elif n <= seen.get((host, fid), 0):
            bad.append("source %s|%s: line %d after line %d" % (host, fid, n, seen[(host, fid)]))
        elif expect_all and n != seen.get((host, fid), 0) + 1:
            bad.append("source %s|%s: line %d follows line %d (every line is due, one after the other)" % (host, fid, n, seen.get((host, fid), 0)))
            seen[(host, fid)] = n
        else:
            seen[(host, fid)] = n
        if len(bad) > 6:
            break
    if expect_all and not bad:
        for h in hosts:
            for fid, lines in src.items():
                if seen.get((h, fid), 0) != len(lines):
                    bad.append("source %s|%s: %d of %d lines delivered" % (h, fid, seen.get((h, fid), 0), len(lines)))
    return bad


def stage_multi(wd, V, rng, tier, pid):
    """C07 over SSH: 3 servers x several files (glob), cat and grep with context; whole lines, right labels, per-source order,
    everything delivered; the servers survive"""
    runs = 0
    cl = Cluster(wd, 3)
    try:
        for k in range(3 if tier == "quick" else 12):
            d = os.path.join(cl.wd, "data%d" % k)
            src = _mkfiles(d, rng, rng.randint(1, 3), 60 if tier == "quick" else 400, huge=(k == 0))
            hosts = [s["host"] for s in cl.servers]
            rc, out, err = cl.run("dcat", os.path.join(d, "*.log"), timeout=120)
            runs += 1
            bad = check_remote_records(out or b"", hosts, src)
            if rc != 0:
                bad.append("client exit status %s" % rc)
            if bad:
                V.violation("SSH, 3 servers, cat %d file(s): %s" % (len(src), bad[0]), {"bad": bad[:6], "stderr": (err or b"")[-300:].decode(errors="replace")})
            # grep with context through the same path: the selected lines keep their own numbers
            rc, out, err = cl.run("dgrep", os.path.join(d, "*.log"), extra=["--regex", "7", "--before", "1", "--after", "1"], timeout=120)
            runs += 1
            bad = check_remote_records(out or b"", hosts, src, expect_all=False)
            if rc != 0:
                bad.append("client exit status %s" % rc)
            if bad:
                V.violation("SSH, 3 servers, grep with context: %s" % bad[0], {"bad": bad[:6]})
        if not all(cl.alive()):
            V.violation("a dserver process died during the SSH stage", {"alive": cl.alive()})
    finally:
        cl.stop()
    return runs


def stage_fidelity(wd, V, rng, tier):
    """C01 over SSH: plain mode, one server: stdout is the file, byte for byte (lines beyond one and two transport reads,
    no final newline, arbitrary bytes except 0xAC, which is an open finding; lines beginning with a dot included)"""
    runs = 0
    cl = Cluster(wd, 1)
    try:
        for k in range(4 if tier == "quick" else 20):
            d = os.path.join(cl.wd, "fid%d" % k)
            os.makedirs(d, exist_ok=True)
            os.chmod(d, 0o755)
            parts = []
            for i in range(rng.randint(1, 40)):
                n = rng.choice([0, 3, 80, 80, 500, 33000, 70000]) if rng.random() < 0.2 else rng.choice([0, 3, 80])
                line = bytes(rng.choice([b for b in range(256) if b not in (0x0A, 0xAC)]) for _ in range(min(n, 200)))
                if n > 200:
                    line = (line * (n // len(line) + 1))[:n]
                if rng.random() < 0.15:
                    line = b"." + line        # lines beginning with a dot are content like any other
                if line.startswith(b".syn close connection"):
                    line = b"x" + line        # (open finding KF_SynTextInContent, pinned elsewhere)
                parts.append(line)
            data = b"\n".join(parts) + (b"\n" if rng.random() < 0.6 else b"")
            path = os.path.join(d, "blob.log")
            if k % 3 == 2:
                import gzip
                path += ".gz"
                with gzip.open(path, "wb") as fh:
                    fh.write(data)
            else:
                open(path, "wb").write(data)
            os.chmod(path, 0o644)
            rc, out, err = cl.run("dcat", path, extra=["--plain"], timeout=120)
            runs += 1
            want = data if data.endswith(b"\n") or not data else data + b"\n"
            if rc != 0 or out not in (data, want):
                i = next((j for j in range(min(len(out or b""), len(data))) if out[j] != data[j]), min(len(out or b""), len(data)))
                V.violation("SSH, plain mode: stdout differs from the file at byte %d (%d of %d bytes, exit %s)" % (i, len(out or b""), len(data), rc),
                            {"file": os.path.basename(path), "around": repr((out or b"")[max(0, i - 20):i + 20]), "stderr": (err or b"")[-300:].decode(errors="replace")})
    finally:
        cl.stop()
    return runs


def stage_slow(wd, V, rng, tier):
    """C02 over SSH, a consumer that does not read for several seconds and then reads everything: every line exactly once,
    in order, exit status 0.  Two sizes: with much data the pipe and the SSH window fill up and the server blocks in the
    middle of the files; with little data everything fits into the window, the server is done at once, gives up on the
    close handshake after 5 s and closes the connection while the client has not printed a line yet."""
    runs = 0
    cl = Cluster(wd, 2)
    try:
        hosts = [s["host"] for s in cl.servers]
        plans = [("big", (("s1.log", 9000, True), ("s2.log", 2500, False)), [3.5] if tier == "quick" else [3.5, 0.0, 7.0]),
                 ("small", (("t1.log", 3000, True), ("t2.log", 700, False)), [6.5] if tier == "quick" else [6.5, 9.0])]
        for label, files, stalls in plans:
            d = os.path.join(cl.wd, "slow-" + label)
            os.makedirs(d, exist_ok=True)
            os.chmod(d, 0o755)
            src = {}
            for name, n, nl in files:
                lines = [("%s line %06d %s" % (name, i, "=" * (i % 90))).encode() for i in range(n)]
                src[name] = lines
                open(os.path.join(d, name), "wb").write(b"\n".join(lines) + (b"\n" if nl else b""))
                os.chmod(os.path.join(d, name), 0o644)
            for stall in stalls:
                rc, out, err = cl.run("dcat", os.path.join(d, "*.log"), timeout=180, stall=stall)
                runs += 1
                bad = check_remote_records(out or b"", hosts, src)
                if rc != 0:
                    bad.append("client exit status %s" % rc)
                if bad:
                    V.violation("SSH, %s files, consumer stalling %.1f s: %s" % (label, stall, bad[0]),
                                {"bad": bad[:6], "stderr": (err or b"")[-300:].decode(errors="replace")})
    finally:
        cl.stop()
    return runs


def stage_window(wd, V, tier):
    """C02 over SSH with the transport as the bottleneck: more data than the SSH window (2 MiB) holds, and a consumer that
    reads a part, pauses for 8 s and then reads on.  When the pause begins the server has pushed what the window takes and
    blocks inside the LAST message of the file (a 900 KiB line: part of it written, the rest in the hands of the blocked
    channel write) - every queue the server's flush() looks at is empty although the end of the file is not delivered.
    Everything must still arrive, once and in order (Session.tla: ServerTakeLine / ServerWrite / ShutdownTimeout)."""
    import subprocess
    runs = 0
    cl = Cluster(os.path.join(wd, "e2e-window"), 1)
    try:
        hosts = [s["host"] for s in cl.servers]
        d = os.path.join(cl.wd, "window")
        os.makedirs(d, exist_ok=True)
        os.chmod(d, 0o755)
        name = "w1.log"
        lines = [("%s line %07d " % (name, i)).encode() + b"=" * 74 for i in range(22000)]     # about 2.6 MiB on the wire (122 bytes per record)
        lines.append(b"LAST:" + b"z" * (900 * 1024))
        open(os.path.join(d, name), "wb").write(b"\n".join(lines) + b"\n")
        os.chmod(os.path.join(d, name), 0o644)
        src = {name: lines}
        for consume in ([1 << 20] if tier == "quick" else [1 << 20, 700 * 1024, 1300 * 1024, 1 << 16]):
            p = subprocess.Popen(cl.client_cmd("dcat", os.path.join(d, name)), cwd=cl.wd, env=vlib.goenv({"HOME": cl.wd}),
                                 stdin=subprocess.DEVNULL, stdout=subprocess.PIPE, stderr=subprocess.PIPE, bufsize=0)
            got = bytearray()
            while len(got) < consume:
                b = os.read(p.stdout.fileno(), 65536)
                if not b:
                    break
                got.extend(b)
            time.sleep(8.0)
            try:
                rest, err = p.communicate(timeout=120)
            except subprocess.TimeoutExpired:
                p.kill()
                rest, err = p.communicate()
                V.violation("SSH, data beyond the SSH window, consumer pausing 8 s after %d bytes: the client did not end" % consume, {"consume": consume})
                runs += 1
                continue
            got.extend(rest)
            runs += 1
            bad = check_remote_records(bytes(got), hosts, src)
            if p.returncode != 0:
                bad.append("client exit status %s" % p.returncode)
            if bad:
                V.violation("SSH, data beyond the SSH window, consumer pausing 8 s after %d bytes: %s" % (consume, bad[0]),
                            {"bad": bad[:4], "consume": consume, "bytes_received": len(got), "stderr": (err or b"")[-300:].decode(errors="replace")})
    finally:
        cl.stop()
    return runs


def max_active_sources(out):
    """REMOTE records only: the largest number of sources (host|file id) that are 'open' at one point of the output, a source
    being open from its first record to its last one.  Reads pass the limiter before they queue their lines into the FIFO
    of the session, so with a limit of k at most k sources can be open at any point of one session's output."""
    seq = []
    for rec in out.split(b"\n"):
        f = rec.split(b"|", 5)
        if len(f) == 6 and f[0] == b"REMOTE":
            seq.append((f[1], f[4]))
    last = {s: i for i, s in enumerate(seq)}
    active, best = set(), 0
    for i, s in enumerate(seq):
        active.add(s)
        best = max(best, len(active))
        if last[s] == i:
            active.discard(s)
    return best, len(last)


def stage_limits(wd, V, rng, tier):
    """C13 wiring: the configured limits reach the limiters of a real server and of the serverless connector.  cat of more
    files than MaxConcurrentCats: the output of the session never has more than that many files open at once."""
    import subprocess
    runs = 0
    base = os.path.join(wd, "e2e-limits")
    d = os.path.join(base, "data")
    os.makedirs(d, exist_ok=True)
    os.chmod(wd, 0o755)
    os.chmod(base, 0o755)
    os.chmod(d, 0o755)
    nfiles = 5
    for i in range(nfiles):
        with open(os.path.join(d, "f%d.log" % (i + 1)), "w") as fh:
            for k in range(4000):
                fh.write("f%d line %d %s\n" % (i + 1, k, "x" * (k % 60)))
        os.chmod(os.path.join(d, "f%d.log" % (i + 1)), 0o644)
    for k in ([1, 2] if tier == "quick" else [1, 2, 3, 4]):
        # serverless connector
        if "dcat" not in _BINS or not os.path.exists(_BINS["dcat"]):
            _BINS["dcat"] = vlib.go_build(wd, "./cmd/dcat", os.path.join(base, "dcat"), tags="")
        exe = _BINS["dcat"]
        cfgp = os.path.join(base, "cats%d.json" % k)
        json.dump({"Server": {"MaxConcurrentCats": k, "MaxConcurrentTails": 50}}, open(cfgp, "w"))
        try:
            p = subprocess.run([exe, "--cfg", cfgp, "--noColor", "--logDir", os.path.join(base, "log"), "--files", os.path.join(d, "*.log")],
                               stdin=subprocess.DEVNULL, stdout=subprocess.PIPE, stderr=subprocess.PIPE, timeout=90, env=vlib.goenv({"HOME": base}))
        except subprocess.TimeoutExpired as e:
            best, nsrc = max_active_sources(e.stdout or b"")
            V.violation("serverless dcat of %d files with MaxConcurrentCats=%d did not finish within 90 s (%d files were delivered): reads that wait for a "
                        "slot never proceed" % (nfiles, k, nsrc), {"limit": k, "files": nfiles})
            runs += 1
            continue
        runs += 1
        best, nsrc = max_active_sources(p.stdout)
        if nsrc != nfiles:
            V.violation("serverless dcat of %d files delivered %d sources" % (nfiles, nsrc), {"limit": k, "rc": p.returncode, "stderr": p.stderr[-300:].decode(errors="replace")})
        elif best > k:
            V.violation("serverless dcat with MaxConcurrentCats=%d: %d files were being read at the same time" % (k, best), {"limit": k, "files": nfiles})
        # real server
        cl = Cluster(os.path.join(base, "c%d" % k), 1, server_cfg={"MaxConcurrentCats": k, "MaxConcurrentTails": 50})
        try:
            rc, out, err = cl.run("dcat", os.path.join(d, "*.log"), timeout=120)
            runs += 1
            best, nsrc = max_active_sources(out or b"")
            if rc != 0 or nsrc != nfiles:
                V.violation("dcat over SSH of %d files delivered %d sources (exit %s)" % (nfiles, nsrc, rc), {"limit": k, "stderr": (err or b"")[-300:].decode(errors="replace")})
            elif best > k:
                V.violation("dserver with MaxConcurrentCats=%d: %d files were being read at the same time" % (k, best), {"limit": k, "files": nfiles})
        finally:
            cl.stop()
    return runs


def stage_scheduled(wd, V):
    """C13, server-wide: the reads of a scheduled job (a dserver running a mapreduce query on its own files) count against
    MaxConcurrentCats like those of any session.  The job's file is a named pipe: its read holds the slot exactly as long as
    this stage keeps the writing end open.  With MaxConcurrentCats = 1 a dcat session must wait meanwhile and must proceed
    once the job's read has ended."""
    import subprocess
    base = os.path.join(wd, "e2e-sched")
    d = os.path.join(base, "data")
    os.makedirs(d, exist_ok=True)
    for x in (wd, base, d):
        os.chmod(x, 0o755)
    fifo, reg = os.path.join(d, "job.fifo"), os.path.join(d, "reg.log")
    os.mkfifo(fifo)
    os.chmod(fifo, 0o666)
    with open(reg, "w") as fh:
        for k in range(300):
            fh.write("REGLINE %d\n" % k)
    os.chmod(reg, 0o644)
    job = {"Name": "vjob", "Enable": True, "AllowFrom": ["127.0.0.1"], "TimeRange": [0, 24], "Files": fifo,
           "Query": "from STATS select count($line) group by $hostname", "Outfile": "./vjob.csv"}
    cl = Cluster(os.path.join(base, "c"), 1, server_cfg={"MaxConcurrentCats": 1, "MaxConcurrentTails": 5, "Schedule": [job]})
    wfd = None
    try:
        deadline = time.time() + 25
        while time.time() < deadline and wfd is None:
            try:
                wfd = os.open(fifo, os.O_WRONLY | os.O_NONBLOCK)     # succeeds only once somebody reads the pipe
            except OSError:
                time.sleep(0.1)
        if wfd is None:
            V.diverge("scheduled-job stage: the job never opened its file within 25 s (stage not run)")
            return 0
        p = subprocess.Popen(cl.client_cmd("dcat", reg), cwd=cl.wd, env=vlib.goenv({"HOME": cl.wd}), stdin=subprocess.DEVNULL,
                             stdout=subprocess.PIPE, stderr=subprocess.PIPE, bufsize=0)
        time.sleep(3.0)
        os.set_blocking(p.stdout.fileno(), False)
        try:
            early = os.read(p.stdout.fileno(), 1 << 20) or b""
        except BlockingIOError:
            early = b""
        os.set_blocking(p.stdout.fileno(), True)
        if b"REGLINE" in early:
            V.violation("MaxConcurrentCats = 1 and a scheduled job of the server is reading a file: a dcat session reads another file at the same time",
                        {"early_output": early[:300].decode(errors="replace")})
        os.write(wfd, b"".join(b"INFO|1002-071143|1|stats.go:56|8|13|7|0.21|471h0m21s|MAPREDUCE:STATS|currentConnections=%d|lifetimeConnections=1\n" % k for k in range(20)))
        os.close(wfd)
        wfd = None
        try:
            rest, err = p.communicate(timeout=60)
        except subprocess.TimeoutExpired:
            p.kill()
            rest, err = p.communicate()
            V.violation("the scheduled job's read has ended, 60 s later the dcat session that waited for the slot has not finished",
                        {"output_bytes": len(early) + len(rest)})
            return 1
        n = (early + rest).count(b"REGLINE")
        if n != 300 or p.returncode != 0:
            V.violation("dcat after the scheduled job's read: %d of 300 lines, exit %s" % (n, p.returncode), {"stderr": err[-300:].decode(errors="replace")})
        return 1
    finally:
        if wfd is not None:
            os.close(wfd)
        cl.stop()


def stage_follow(wd, V, rng, tier):
    """C04 at the level a user sees: the real dtail binary follows a file on a real dserver while a writer appends to it -
    whole lines, lines in two writes with a pause in between, lines ending in CR, CRs inside, blanks, lines longer than
    Server.MaxLineLength (4096 here), small bursts.  Every appended line arrives exactly once, unmodified, in order (a line
    beyond MaxLineLength in pieces of at most that length); a gap is permitted only where the next record reports a
    transmission percentage below 100 (follow mode may drop lines for a slow client, visibly)."""
    import subprocess
    MAXL = 4096
    base = os.path.join(wd, "e2e-follow")
    d = os.path.join(base, "data")
    os.makedirs(d, exist_ok=True)
    for x in (wd, base, d):
        os.chmod(x, 0o755)
    path = os.path.join(d, "follow.log")
    with open(path, "wb") as fh:
        fh.write(b"old line 1\nold line 2\n")
    os.chmod(path, 0o644)
    cl = Cluster(os.path.join(base, "c"), 1, server_cfg={"MaxLineLength": MAXL})
    if "dtail" not in _BINS or not os.path.exists(_BINS["dtail"]):
        _BINS["dtail"] = vlib.go_build(wd, "./cmd/dtail", os.path.join(base, "dtail"), tags="")
    cl.bins["dtail"] = _BINS["dtail"]
    p = None
    try:
        p = subprocess.Popen(cl.client_cmd("dtail", path), cwd=cl.wd, env=vlib.goenv({"HOME": cl.wd}), stdin=subprocess.DEVNULL,
                             stdout=subprocess.PIPE, stderr=subprocess.PIPE, bufsize=0)
        os.set_blocking(p.stdout.fileno(), False)
        got = bytearray()
        def pump():
            try:
                while True:
                    b = os.read(p.stdout.fileno(), 1 << 20)
                    if not b:
                        return
                    got.extend(b)
            except BlockingIOError:
                pass
        fh = open(path, "ab", buffering=0)
        written = []            # complete lines in the order of their final newline
        def wline(content, parts=1, pause=0.0):
            data = content + b"\n"
            if parts > 1:
                cut = max(1, len(data) // 2)
                fh.write(data[:cut])
                time.sleep(pause)
                pump()
                fh.write(data[cut:])
            else:
                fh.write(data)
            written.append(content)
        # until the follow is live
        deadline = time.time() + 25
        k = 0
        while time.time() < deadline and b"SYNC" not in got:
            wline(b"SYNC %d" % k)
            k += 1
            time.sleep(0.1)
            pump()
        if b"SYNC" not in got:
            V.diverge("follow stage: dtail delivered nothing within 25 s (stage not run): %r" % bytes(got[-200:]))
            return 0
        n = 0
        nlines = 120 if tier == "quick" else 900
        while n < nlines:
            kind = rng.choice(["plain", "plain", "cr", "crcr", "crin", "blank", "twoparts", "long", "exact", "empty", "burst", "dot", "utf8"])
            n += 1
            tag = b"L%d:" % n
            if kind == "plain":
                wline(tag + b"some text | with ; delimiters")
            elif kind == "cr":
                wline(tag + b"ends in CR\r")
            elif kind == "crcr":
                wline(tag + b"\r\r")
            elif kind == "crin":
                wline(tag + b"CR \r inside")
            elif kind == "blank":
                wline(tag + b"   ")
            elif kind == "dot":
                wline(b"." + tag + b"starts with a dot")
            elif kind == "utf8":
                wline(tag + "é✓日".encode())
            elif kind == "twoparts":
                wline(tag + b"first half / second half", parts=2, pause=rng.choice([0.03, 0.15, 0.35]))
            elif kind == "long":
                wline(tag + b"h" * rng.choice([MAXL - 10, MAXL + 1, 2 * MAXL + 77, 3 * MAXL]), parts=rng.choice([1, 2]), pause=0.25)
            elif kind == "exact":
                # exactly k x MaxLineLength bytes, then really empty lines (the line's own newline stands alone after the cut)
                wline((tag + b"e" * (3 * MAXL))[:rng.choice([1, 2]) * MAXL], parts=rng.choice([1, 2]), pause=0.2)
                for _ in range(rng.choice([1, 2])):
                    wline(b"")
            elif kind == "empty":
                wline(b"")
            elif kind == "burst":
                for j in range(30):
                    wline(tag + b"burst %d" % j)
            time.sleep(rng.choice([0, 0, 0.01, 0.12]))
            pump()
        wline(b"END OF FOLLOW")
        deadline = time.time() + 30
        while time.time() < deadline and b"END OF FOLLOW" not in got:
            time.sleep(0.05)
            pump()
        fh.close()
        # ---- compare
        recs = []
        for rec in bytes(got).split(b"\n"):
            f = rec.split(b"|", 5)
            if len(f) == 6 and f[0] == b"REMOTE":
                recs.append((f[2], f[5]))
        first = next((i for i, (_, c) in enumerate(recs) if c.startswith(b"SYNC")), None)
        start = written.index(recs[first][1]) if first is not None and recs[first][1] in written else None
        if start is None:
            V.violation("dtail over SSH: the first delivered line is not a line of the file", {"first_records": [r[1][:80].decode(errors="replace") for r in recs[:3]]})
            return 1
        exp = list(written[start:])
        orig = [len(x) for x in exp]
        i = 0
        bad = None
        spurious_ok = False     # the last line had exactly k x MaxLineLength bytes: its own newline stands alone after the cut,
        slack = 0               # one empty record more is the permitted long-line newline (C01), not a line of the file
        for perc, c in recs[first:]:
            if spurious_ok and c == b"":
                spurious_ok = False
                if i < len(exp) and exp[i] == b"":
                    slack += 1          # could also be the real empty line that follows: settled at the next mismatch
                continue
            spurious_ok = False
            if i >= len(exp):
                bad = "a line was delivered after the last appended line: %r" % c[:80]
                break
            if c != exp[i] and exp[i] == b"" and slack > 0 and i + 1 < len(exp) and (c == exp[i + 1] or (len(exp[i + 1]) > MAXL and exp[i + 1].startswith(c))):
                slack -= 1              # the empty record taken for the permitted one was this real empty line
                i += 1
            if c == exp[i]:
                spurious_ok = len(c) > 0 and orig[i] % MAXL == 0
                i += 1
                continue
            if len(exp[i]) > MAXL and exp[i].startswith(c) and 0 < len(c) <= MAXL:
                exp[i] = exp[i][len(c):]
                continue
            j = next((j for j in range(i + 1, min(len(exp), i + 400)) if exp[j] == c), None)
            if j is not None and perc.strip() != b"100":
                i = j + 1          # dropped for a slow client, and the record says so
                continue
            bad = ("appended line %r was not delivered as it is; the record in its place: %r (transmission %s%%)" %
                   (exp[i][:60], c[:60], perc.decode(errors="replace")))
            break
        if bad is None and slack > 0 and i == len(exp) - slack and all(x == b"" for x in exp[i:]):
            i = len(exp)
        if bad is None and i < len(exp):
            bad = "%d of %d appended lines delivered 30 s after the last one was written; first missing: %r" % (i, len(exp), exp[i][:60])
        if bad:
            V.violation("dtail over SSH, followed file: " + bad, {"lines_written": len(written), "records": len(recs)})
        return 1
    finally:
        if p is not None:
            p.kill()
            p.communicate()
        cl.stop()


def stage_tail_stall(wd, V, tier="quick"):
    """the real dcat binary, serverless, plain mode: a consumer that stops reading for 6.5 s just before the end - the server
    side has handed everything over (its queues are empty, it gives up waiting for the close handshake after 5 s) while the
    client still holds a 300 kB last line it cannot write; the output must nevertheless be complete"""
    import subprocess
    base = os.path.join(wd, "e2e-tailstall")
    os.makedirs(base, exist_ok=True)
    if "dcat" not in _BINS or not os.path.exists(_BINS["dcat"]):
        _BINS["dcat"] = vlib.go_build(wd, "./cmd/dcat", os.path.join(base, "dcat"), tags="")
    exe = _BINS["dcat"]
    for final_nl in ((True,) if tier == "quick" else (True, False)):
        data = b"".join(b"short line %03d\n" % i for i in range(20)) + b"L" * 300000 + (b"\n" if final_nl else b"")
        path = os.path.join(base, "tailstall.log")
        open(path, "wb").write(data)
        p = subprocess.Popen([exe, "--plain", "--cfg", "none", "--logDir", os.path.join(base, "log"), "--files", path],
                             stdin=subprocess.DEVNULL, stdout=subprocess.PIPE, stderr=subprocess.PIPE, env=vlib.goenv(), bufsize=0)
        got = os.read(p.stdout.fileno(), 1000)     # unbuffered: communicate() below reads the same descriptor
        time.sleep(6.5)
        try:
            rest, err = p.communicate(timeout=60)
        except subprocess.TimeoutExpired:
            p.kill()
            rest, err = p.communicate()
            V.violation("dcat did not terminate after a consumer stall at the end of the file", {"final_newline": final_nl})
            continue
        got += rest
        want = data if final_nl else data + b"\n"
        if got not in (data, want) or p.returncode != 0:
            V.violation("a consumer stalling 6.5 s just before the end of the output: %d of %d bytes arrived, exit status %d" % (len(got), len(data), p.returncode),
                        {"final_newline": final_nl, "tail": repr(got[-40:]), "stderr": err[-300:].decode(errors="replace")})
        if V.violations:
            break


