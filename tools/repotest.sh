#!/bin/bash
# runs the repository's pinned suite with the hook guard off; prints PASS when all 6 test packages are ok
export GOFLAGS=-mod=mod GOPROXY=off GOSUMDB=off GOTOOLCHAIN=local
cd /repo && go build ./... && go build -tags verif ./... && out=$(go test -vet=off -count=1 ./... 2>&1 | grep -v "no test files")
n=$(echo "$out" | grep -c "^ok")
if [ "$n" = "6" ] && ! echo "$out" | grep -q FAIL; then echo "REPO TESTS PASS ($n packages)"; else echo "REPO TESTS FAIL"; echo "$out"; fi
