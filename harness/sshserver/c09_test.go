package server

// C09 harness, public keys: every authorized-keys file enumerated by TLC (as a sequence of line kinds) is rendered
// with real keys and checked with the real verifyAuthorizedKeys(); histories of offers for two users go through the
// real PublicKeyCallback (files in ./cache/<user>.authorized_keys) to show that a grant never influences a later one.

import (
	"crypto/ecdsa"
	"crypto/ed25519"
	"crypto/elliptic"
	"crypto/rand"
	"crypto/rsa"
	"fmt"
	mrand "math/rand"
	"net"
	"os"
	"path/filepath"
	"runtime"
	"sort"
	"strings"
	"sync"
	"testing"
	"time"

	user "github.com/mimecast/dtail/internal/user/server"

	gossh "golang.org/x/crypto/ssh"
)

type c09KeyCase struct {
	File []string `json:"file"`
	Ref  []string `json:"ref"`
	Impl []string `json:"impl"`
}

type c09Meta struct {
	user string
	addr string
}

func (m c09Meta) User() string          { return m.user }
func (m c09Meta) SessionID() []byte     { return []byte("s") }
func (m c09Meta) ClientVersion() []byte { return []byte("c") }
func (m c09Meta) ServerVersion() []byte { return []byte("s") }
func (m c09Meta) RemoteAddr() net.Addr  { a, _ := net.ResolveTCPAddr("tcp", m.addr); return a }
func (m c09Meta) LocalAddr() net.Addr   { a, _ := net.ResolveTCPAddr("tcp", "127.0.0.1:2222"); return a }

func c09Keys(t *testing.T, rng *mrand.Rand) map[string]gossh.PublicKey {
	gen := func(kind int) gossh.PublicKey {
		switch kind % 3 {
		case 0:
			pub, _, _ := ed25519.GenerateKey(rand.Reader)
			k, _ := gossh.NewPublicKey(pub)
			return k
		case 1:
			priv, _ := rsa.GenerateKey(rand.Reader, 2048)
			k, _ := gossh.NewPublicKey(&priv.PublicKey)
			return k
		default:
			priv, _ := ecdsa.GenerateKey(elliptic.P256(), rand.Reader)
			k, _ := gossh.NewPublicKey(&priv.PublicKey)
			return k
		}
	}
	o := rng.Intn(3)
	return map[string]gossh.PublicKey{"A": gen(o), "B": gen(o + 1), "C": gen(o + 2)}
}

func c09Render(kinds []string, keys map[string]gossh.PublicKey, finalNL bool, rng *mrand.Rand) []byte {
	lines := []string{}
	for _, k := range kinds {
		switch k {
		case "A", "B":
			l := strings.TrimSpace(string(gossh.MarshalAuthorizedKey(keys[k])))
			if rng.Intn(2) == 0 {
				l += " user@host comment"
			}
			if k == "B" && rng.Intn(3) == 0 {
				// the text of another key (C, listed nowhere) inside an option value of this entry lists nothing either
				l = `environment="OLDKEY=` + strings.TrimSpace(string(gossh.MarshalAuthorizedKey(keys["C"]))) + `" ` + l
			}
			lines = append(lines, l)
		case "Aopt":
			lines = append(lines, `command="/bin/true",no-pty,from="10.0.0.*" `+strings.TrimSpace(string(gossh.MarshalAuthorizedKey(keys["A"])))+" with options")
		case "cmt":
			// a comment may be a key that was commented out: the text of a real key (A, which another line may list, or C,
			// which no line lists) behind a '#' lists nothing
			textOf := func(k string) string { return strings.TrimSpace(string(gossh.MarshalAuthorizedKey(keys[k]))) }
			lines = append(lines, []string{"# a comment", "#ssh-rsa AAAA commented out", "   # indented comment",
				"# " + textOf("A") + " old laptop", "#" + textOf("C"), "# " + textOf("C") + " revoked"}[rng.Intn(6)])
		case "blank":
			lines = append(lines, []string{"", "", "   ", "\t"}[rng.Intn(4)])
		case "junk":
			lines = append(lines, []string{"this is not a key", "ssh-rsa", "ssh-ed25519 not-base64!!"}[rng.Intn(3)])
		}
	}
	s := strings.Join(lines, "\n")
	if finalNL && len(lines) > 0 {
		s += "\n"
	}
	return []byte(s)
}

func c09Sorted(l []string) string {
	c := append([]string{}, l...)
	sort.Strings(c)
	return strings.Join(c, ",")
}

func TestC09Keys(t *testing.T) {
	vInit("none")
	var cases []c09KeyCase
	vReadJSON(t, "VERIF_CASES", &cases)
	rng := mrand.New(mrand.NewSource(vSeed()))
	keys := c09Keys(t, rng)
	u, err := user.New("alice", "127.0.0.1:5555")
	if err != nil {
		t.Fatal(err)
	}
	type bad struct {
		File    []string `json:"file"`
		FinalNL bool     `json:"final_newline"`
		Got     []string `json:"accepted"`
		Ref     []string `json:"ref"`
		Impl    []string `json:"impl_model"`
		Text    string   `json:"text"`
	}
	var bads []bad
	evals := 0
	for _, c := range cases {
		for _, finalNL := range []bool{true, false} {
			if !finalNL && len(c.File) > 0 && c.File[len(c.File)-1] == "blank" {
				continue // same bytes as the shorter file with a final newline
			}
			text := c09Render(c.File, keys, finalNL, rng)
			got := []string{}
			for _, k := range []string{"A", "B", "C"} {
				evals++
				perm, err := verifyAuthorizedKeys(u, text, keys[k])
				if err == nil && perm != nil {
					got = append(got, k)
				}
			}
			if c09Sorted(got) != c09Sorted(c.Ref) {
				if len(bads) < 100 {
					bads = append(bads, bad{c.File, finalNL, got, c.Ref, c.Impl, string(text)})
				}
			}
		}
	}
	// histories through the real PublicKeyCallback: ./cache/<user>.authorized_keys
	dir, _ := os.MkdirTemp("", "c09-")
	defer os.RemoveAll(dir)
	cwd, _ := os.Getwd()
	os.Chdir(dir)
	defer os.Chdir(cwd)
	os.MkdirAll(filepath.Join(dir, "cache"), 0755)
	type hbad struct {
		Alice   []string `json:"alice_file"`
		Bob     []string `json:"bob_file"`
		History []string `json:"history"`
		Step    int      `json:"step"`
		Granted bool     `json:"granted"`
		Ref     bool     `json:"ref"`
	}
	var hbads []hbad
	well := []c09KeyCase{}
	for _, c := range cases { // well-formed files only (Ref = Impl there): the history effect is what is tested
		if c09Sorted(c.Ref) == c09Sorted(c.Impl) {
			well = append(well, c)
		}
	}
	hevals := 0
	nh := 40
	fmt.Sscanf(os.Getenv("VERIF_N"), "%d", &nh)
	for n := 0; n < nh && len(well) > 0; n++ {
		fa, fb := well[rng.Intn(len(well))], well[rng.Intn(len(well))]
		os.WriteFile("cache/alice.authorized_keys", c09Render(fa.File, keys, true, rng), 0644)
		os.WriteFile("cache/bob.authorized_keys", c09Render(fb.File, keys, true, rng), 0644)
		cur := map[string][]string{"alice": fa.File, "bob": fb.File}
		listed := map[string]map[string]bool{"alice": {}, "bob": {}}
		for _, k := range fa.Ref {
			listed["alice"][k] = true
		}
		for _, k := range fb.Ref {
			listed["bob"][k] = true
		}
		for h := 0; h < 12; h++ {
			hist := []string{}
			for step := 0; step < 3; step++ {
				// between two logins the administrator may replace a user's file: plainly, or the way a restore / a
				// timestamp-preserving sync does it (new content, old or older modification time)
				if step > 0 && rng.Intn(3) == 0 {
					u := []string{"alice", "bob"}[rng.Intn(2)]
					nf := well[rng.Intn(len(well))]
					path := "cache/" + u + ".authorized_keys"
					st, _ := os.Stat(path)
					how := rng.Intn(3)
					switch how {
					case 0:
						os.WriteFile(path, c09Render(nf.File, keys, true, rng), 0644)
					case 1:
						os.WriteFile(path, c09Render(nf.File, keys, true, rng), 0644)
						if st != nil {
							os.Chtimes(path, st.ModTime(), st.ModTime())
						}
					default:
						os.WriteFile(path+".new", c09Render(nf.File, keys, true, rng), 0644)
						if st != nil {
							old := st.ModTime().Add(-time.Hour)
							os.Chtimes(path+".new", old, old)
						}
						os.Rename(path+".new", path)
					}
					cur[u] = nf.File
					listed[u] = map[string]bool{}
					for _, k := range nf.Ref {
						listed[u][k] = true
					}
					hist = append(hist, fmt.Sprintf("rewrite(%s,%d):%v", u, how, nf.File))
				}
				who := []string{"alice", "bob"}[rng.Intn(2)]
				k := []string{"A", "B", "C"}[rng.Intn(3)]
				hist = append(hist, who+":"+k)
				hevals++
				perm, err := PublicKeyCallback(c09Meta{who, fmt.Sprintf("127.0.0.1:%d", 4000+rng.Intn(1000))}, keys[k])
				granted := err == nil && perm != nil
				if granted != listed[who][k] && len(hbads) < 50 {
					hbads = append(hbads, hbad{cur["alice"], cur["bob"], append([]string{}, hist...), step, granted, listed[who][k]})
				}
			}
		}
	}
	vWriteJSON(t, "VERIF_OUT", map[string]interface{}{"evaluations": evals + hevals, "bad": bads, "history_bad": hbads})
}

// Logins that overlap in time: several users authenticate at once, each against a large authorized-keys file of their
// own.  Every decision must be the one of the user's own file, whatever the others are doing.
func TestC09Concurrent(t *testing.T) {
	vInit("none")
	rng := mrand.New(mrand.NewSource(vSeed()))
	keys := c09Keys(t, rng)
	dir, _ := os.MkdirTemp("", "c09c-")
	defer os.RemoveAll(dir)
	cwd, _ := os.Getwd()
	os.Chdir(dir)
	defer os.Chdir(cwd)
	os.MkdirAll(filepath.Join(dir, "cache"), 0755)
	users := []string{"alice", "bob", "carol"}
	own := map[string]string{"alice": "A", "bob": "B", "carol": "C"}
	for _, u := range users {
		var sb strings.Builder
		for i := 0; i < 600; i++ {
			fmt.Fprintf(&sb, "# key list of %s, comment line %d, padding padding padding padding padding padding\n", u, i)
		}
		sb.Write(gossh.MarshalAuthorizedKey(keys[own[u]]))
		for i := 0; i < 50; i++ {
			fmt.Fprintf(&sb, "# trailing comment %d\n", i)
		}
		os.WriteFile(filepath.Join("cache", u+".authorized_keys"), []byte(sb.String()), 0644)
	}
	rounds := 150
	fmt.Sscanf(os.Getenv("VERIF_N"), "%d", &rounds)
	var mu sync.Mutex
	var bads []string
	evals := 0
	var wg sync.WaitGroup
	// two phases: 9 goroutines on all processors, then 24 goroutines on 2 processors (time-sliced, so a login is
	// preempted in the middle of the callback and another one runs on the same P in between)
	for phase := 0; phase < 2; phase++ {
		ng := 9
		if phase == 1 {
			ng = 24
			defer runtime.GOMAXPROCS(runtime.GOMAXPROCS(2))
		}
		for g := 0; g < ng; g++ {
			wg.Add(1)
			go func(g int) {
				defer wg.Done()
				r := mrand.New(mrand.NewSource(int64(g) + vSeed()))
				for i := 0; i < rounds; i++ {
					u := users[r.Intn(3)]
					k := []string{"A", "B", "C"}[r.Intn(3)]
					perm, err := PublicKeyCallback(c09Meta{u, fmt.Sprintf("127.0.0.1:%d", 5000+g)}, keys[k])
					granted := err == nil && perm != nil
					mu.Lock()
					evals++
					if granted != (own[u] == k) && len(bads) < 20 {
						bads = append(bads, fmt.Sprintf("user %s offered key %s while other logins were in progress: granted=%v, the user's file lists key %s only", u, k, granted, own[u]))
					}
					mu.Unlock()
				}
			}(g)
		}
		wg.Wait()
	}
	vWriteJSON(t, "VERIF_OUT", map[string]interface{}{"evaluations": evals, "bad": bads})
}
