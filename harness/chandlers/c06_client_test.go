package handlers

// C06 harness, client half: one real MaprHandler per server sharing one real GlobalGroupSet.  Every server's messages are
// written by its own goroutine; the trace point merge.locked (inside the merge's critical section) is a blocking gate,
// so the replayer can keep one handler - or the "reporter" - inside the critical section while other servers' messages
// arrive, in the order of a TLC behaviour of spec/MaprClientSched.tla.  Outcome: the count in the final Result() against
// the number of lines all servers accounted for.

import (
	"os"
	"fmt"
	"reflect"
	"regexp"
	"strconv"
	"strings"
	"sync"
	"testing"
	"time"

	"github.com/mimecast/dtail/internal/mapr"
)

type c06cStep struct {
	A string `json:"a"`
	S int    `json:"s"`
}

type c06cCase struct {
	ID      int        `json:"id"`
	Servers int        `json:"servers"`
	NMsgs   int        `json:"nmsgs"`
	Sched   []c06cStep `json:"sched"`
	Free    bool       `json:"free"`
}

type c06cResult struct {
	ID          int    `json:"id"`
	Total       int    `json:"total"`
	Final       int    `json:"final"`
	Skipped     int    `json:"skipped"`      // merges that found the lock busy
	LastSkipped int    `json:"last_skipped"` // ... for a server's last message
	Problem     string `json:"problem"`
}

type c06cWorld struct {
	mu      sync.Mutex
	gated   bool
	parked  map[uintptr]chan struct{} // local group set address -> gate
	busy    map[uintptr]int
	lastBusy map[uintptr]bool
}

var c06cWorlds sync.Map // global group set address -> *c06cWorld

func c06cAddr(x interface{}) uintptr {
	v := reflect.ValueOf(x)
	if v.Kind() != reflect.Ptr {
		return 0
	}
	return v.Pointer()
}

func c06cInstall() {
	vhookInstall(func(point string, kv ...interface{}) {
		if len(kv) < 2 || !strings.HasPrefix(point, "merge.") {
			return
		}
		wv, ok := c06cWorlds.Load(c06cAddr(kv[0]))
		if !ok {
			return
		}
		w := wv.(*c06cWorld)
		grp := c06cAddr(kv[1])
		switch point {
		case "merge.locked":
			w.mu.Lock()
			var g chan struct{}
			if w.gated {
				g = make(chan struct{})
				w.parked[grp] = g
			}
			w.mu.Unlock()
			if g != nil {
				<-g
			}
		case "merge.busy":
			w.mu.Lock()
			w.busy[grp]++
			w.lastBusy[grp] = true
			w.mu.Unlock()
		}
	})
}

func (w *c06cWorld) isParked(grp uintptr) bool {
	w.mu.Lock()
	defer w.mu.Unlock()
	_, ok := w.parked[grp]
	return ok
}

func (w *c06cWorld) release(grp uintptr) bool {
	w.mu.Lock()
	g, ok := w.parked[grp]
	delete(w.parked, grp)
	w.mu.Unlock()
	if ok {
		close(g)
	}
	return ok
}

func (w *c06cWorld) freeAll() {
	w.mu.Lock()
	w.gated = false
	for k, g := range w.parked {
		close(g)
		delete(w.parked, k)
	}
	w.mu.Unlock()
}

var c06cCount = regexp.MustCompile(`^\s*(\d+)\s*$`)

func c06cRun(c c06cCase) (res c06cResult) {
	res.ID = c.ID
	query, err := mapr.NewQuery("select count($line) group by $hostname")
	if err != nil {
		res.Problem = err.Error()
		return
	}
	global := mapr.NewGlobalGroupSet()
	w := &c06cWorld{gated: !c.Free, parked: map[uintptr]chan struct{}{}, busy: map[uintptr]int{}, lastBusy: map[uintptr]bool{}}
	c06cWorlds.Store(c06cAddr(global), w)
	defer c06cWorlds.Delete(c06cAddr(global))
	hs := make([]*MaprHandler, c.Servers)
	local := make([]uintptr, c.Servers)
	next := make([]chan struct{}, c.Servers)
	returned := make([]chan struct{}, c.Servers)
	var wg sync.WaitGroup
	for s := 0; s < c.Servers; s++ {
		hs[s] = NewMaprHandler(fmt.Sprintf("srv%d", s+1), query, global)
		local[s] = c06cAddr(hs[s].aggregate) // placeholder, replaced below by the local group's address
		next[s] = make(chan struct{}, c.NMsgs+1)
		returned[s] = make(chan struct{}, c.NMsgs+1)
		wg.Add(1)
		go func(s int) {
			defer wg.Done()
			for i := 0; i < c.NMsgs; i++ {
				if !c.Free {
					<-next[s]
				}
				w.mu.Lock()
				w.lastBusy[local[s]] = false
				w.mu.Unlock()
				// one line accounted for by this message
				msg := fmt.Sprintf("AGGREGATE|srv%d|vhost∥1∥count($line)≔1∥\xac", s+1)
				hs[s].Write([]byte(msg))
				returned[s] <- struct{}{}
			}
		}(s)
		res.Total += c.NMsgs
	}
	// the address of every handler's local group set identifies its merges at the trace points
	for s := 0; s < c.Servers; s++ {
		local[s] = c06cLocalGroup(hs[s])
	}
	holder := mapr.NewGroupSet()
	holderDone := make(chan struct{}, 4)
	waitParkedOrReturned := func(s int, wantParked bool) bool {
		deadline := time.Now().Add(400 * time.Millisecond)
		for time.Now().Before(deadline) {
			if wantParked && w.isParked(local[s]) {
				return true
			}
			if !wantParked {
				select {
				case <-returned[s]:
					return true
				default:
				}
			}
			time.Sleep(100 * time.Microsecond)
		}
		return false
	}
	if !c.Free {
	replay:
		for i, st := range c.Sched {
			s := st.S - 1
			switch st.A {
			case "recv":
				next[s] <- struct{}{}
				// the model's next step for this server tells whether it gets the lock (parks at the gate) or finds it busy
				want := ""
				for _, later := range c.Sched[i+1:] {
					if later.S == st.S && (later.A == "locked" || later.A == "busy") {
						want = later.A
						break
					}
				}
				if want == "locked" && !waitParkedOrReturned(s, true) {
					res.Problem = fmt.Sprintf("step %d: server %d did not enter the critical section", i, st.S)
					break replay
				}
				if want == "busy" && !waitParkedOrReturned(s, false) {
					res.Problem = fmt.Sprintf("step %d: server %d did not return from a busy merge", i, st.S)
					break replay
				}
			case "done":
				if w.release(local[s]) {
					<-returned[s]
				}
			case "rlock":
				go func() { global.MergeNoblock(query, holder); holderDone <- struct{}{} }()
				deadline := time.Now().Add(400 * time.Millisecond)
				for !w.isParked(c06cAddr(holder)) && time.Now().Before(deadline) {
					time.Sleep(100 * time.Microsecond)
				}
			case "runlock":
				if w.release(c06cAddr(holder)) {
					<-holderDone
				}
			}
		}
	}
	w.freeAll()
	for s := 0; s < c.Servers; s++ {
		for i := 0; i < c.NMsgs; i++ {
			select {
			case next[s] <- struct{}{}:
			default:
			}
		}
	}
	done := make(chan struct{})
	go func() { wg.Wait(); close(done) }()
	select {
	case <-done:
	case <-time.After(20 * time.Second):
		res.Problem = "handlers did not finish"
		return
	}
	// what MaprClient.Start does after all connections ended: the final report
	out, _, err := global.Result(query, -1)
	if err != nil {
		res.Problem = err.Error()
		return
	}
	for _, l := range strings.Split(out, "\n") {
		if m := c06cCount.FindStringSubmatch(l); m != nil {
			v, _ := strconv.Atoi(m[1])
			res.Final += v
		}
	}
	w.mu.Lock()
	for s := 0; s < c.Servers; s++ {
		res.Skipped += w.busy[local[s]]
		if w.lastBusy[local[s]] {
			res.LastSkipped++
		}
	}
	w.mu.Unlock()
	return
}

func TestC06Client(t *testing.T) {
	vInit("none")
	c06cInstall()
	var cases []c06cCase
	vReadJSON(t, "VERIF_CASES", &cases)
	results := make([]c06cResult, len(cases))
	for i := range cases {
		results[i] = c06cRun(cases[i])
	}
	vWriteJSON(t, "VERIF_OUT", results)
}

// c06cLocalGroup returns the address of the handler's per-server group set (the argument the merge trace points carry).
func c06cLocalGroup(h *MaprHandler) uintptr {
	return reflect.ValueOf(h.aggregate).Elem().FieldByName("group").Pointer()
}

// The client's periodic reporter (MaprClient.reportResults: GlobalGroupSet.Result / SwapOut) runs while the per-server
// handlers are still merging partial results.  Eight servers deliver 'rounds' messages each over many groups, a reporter
// renders the interim result every few milliseconds; at the end the cumulative result must account for every line.
// (A data race on the group maps ends the process with "fatal error: concurrent map ..."; the driver reports that.)
func TestC06Reporter(t *testing.T) {
	vInit("none")
	rounds := 3000
	fmt.Sscanf(os.Getenv("VERIF_N"), "%d", &rounds)
	query, err := mapr.NewQuery("select count($line),$g group by $g")
	if err != nil {
		t.Fatal(err)
	}
	global := mapr.NewGlobalGroupSet()
	nsrv := 8
	var wg sync.WaitGroup
	stop := make(chan struct{})
	reports := 0
	repDone := make(chan struct{})
	go func() {
		defer close(repDone)
		for {
			select {
			case <-stop:
				return
			default:
			}
			if _, _, err := global.Result(query, 10); err == nil {
				reports++
			}
			time.Sleep(200 * time.Microsecond)
		}
	}()
	for s := 0; s < nsrv; s++ {
		wg.Add(1)
		go func(s int) {
			defer wg.Done()
			h := NewMaprHandler(fmt.Sprintf("srv%d", s+1), query, global)
			for r := 0; r < rounds; r++ {
				g := fmt.Sprintf("g%d", (r*7+s)%(rounds*2)) // new groups keep appearing for the whole run
				if r%2 == 0 {
					g = fmt.Sprintf("hot%d", r%3) // ... and a few groups every server reports all the time (group by $loglevel)
				}
				msg := fmt.Sprintf("AGGREGATE|srv%d|%s∥3∥count($line)≔3∥$g≔%s∥", s+1, g, g)
				h.Write(append([]byte(msg), 0xAC))
			}
		}(s)
	}
	wg.Wait()
	close(stop)
	<-repDone
	total := 0
	groups := 0
	if res, n, err := global.Result(query, 100000); err == nil {
		groups = n
		for _, l := range strings.Split(res, "\n") {
			f := strings.Split(l, "|")
			if len(f) == 2 {
				if v, err := strconv.Atoi(strings.TrimSpace(f[0])); err == nil {
					total += v
				}
			}
		}
	}
	vWriteJSON(t, "VERIF_OUT", map[string]interface{}{"expected": nsrv * rounds * 3, "counted": total, "groups": groups, "reports": reports})
}

// Many servers reporting the SAME groups at the same moment (group by $loglevel): the handlers' merges into the global
// result go straight at the same aggregate sets.  16 workers merge a prepared partial result (3 groups, 8 aggregated
// columns) in a tight loop; afterwards every count, sum and sample count must be exact.
func TestC06MergeStress(t *testing.T) {
	vInit("none")
	iters := 20000
	fmt.Sscanf(os.Getenv("VERIF_N"), "%d", &iters)
	cols := []string{"count($line)", "sum($a)", "sum($b)", "sum($c)", "sum($d)", "max($a)", "min($a)", "avg($b)"}
	query, err := mapr.NewQuery("select " + strings.Join(cols, ",") + ",$g group by $g")
	if err != nil {
		t.Fatal(err)
	}
	global := mapr.NewGlobalGroupSet()
	workers := 16
	var wg sync.WaitGroup
	for w := 0; w < workers; w++ {
		wg.Add(1)
		go func(w int) {
			defer wg.Done()
			for i := 0; i < iters; i++ {
				local := mapr.NewGroupSet()
				for g := 0; g < 3; g++ {
					set := local.GetSet(fmt.Sprintf("hot%d", g))
					for _, c := range cols {
						set.FValues[c] = 1
					}
					set.SValues["$g"] = fmt.Sprintf("hot%d", g)
					set.Samples = 1
				}
				if err := global.Merge(query, local); err != nil {
					panic(err)
				}
			}
		}(w)
	}
	wg.Wait()
	res, n, err := global.Result(query, 100)
	bad := ""
	want := workers * iters
	if err != nil || n != 3 {
		bad = fmt.Sprintf("result: %d groups, err %v", n, err)
	}
	for _, l := range strings.Split(res, "\n") {
		f := strings.Split(l, "|")
		if len(f) < len(cols)+1 || !strings.Contains(l, "hot") {
			continue
		}
		for ci := 0; ci < 5; ci++ { // the count and the four sums
			if v, err := strconv.ParseFloat(strings.TrimSpace(f[ci]), 64); err != nil || int(v+0.5) != want {
				bad = fmt.Sprintf("group %s: column %s is %s after %d merges of 1 each", strings.TrimSpace(f[len(f)-1]), cols[ci], strings.TrimSpace(f[ci]), want)
			}
		}
	}
	vWriteJSON(t, "VERIF_OUT", map[string]interface{}{"merges": want, "bad": bad, "result": res})
}
