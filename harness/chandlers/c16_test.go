package handlers

// C16 harness: every message shape enumerated by TLC (prefix x number of fields x kind of last field x newline) is
// concretised and written to the three real client handlers in both colour modes; a panic is a crash of the client;
// the coloured output with the escape sequences removed must equal the uncoloured output.

import (
	"bytes"
	"fmt"
	"io"
	"math/rand"
	"os"
	"regexp"
	"strings"
	"sync"
	"testing"

	"github.com/mimecast/dtail/internal/config"
	"github.com/mimecast/dtail/internal/mapr"
)

type c16Case struct {
	Prefix  string `json:"prefix"`
	NFields int    `json:"nfields"`
	Last    string `json:"last"`
	NL      bool   `json:"nl"`
}

type c16Bad struct {
	Case    c16Case `json:"case"`
	Handler string  `json:"handler"`
	Colour  bool    `json:"colour"`
	Message string  `json:"message"`
	Problem string  `json:"problem"`
	Plain   string  `json:"plain_output,omitempty"`
	Colored string  `json:"coloured_output,omitempty"`
}

var c16Esc = regexp.MustCompile("\x1b\\[[0-9;]*m")

func c16Capture(f func()) (out string, pan string) {
	old := os.Stdout
	r, w, _ := os.Pipe()
	os.Stdout = w
	var buf bytes.Buffer
	var wg sync.WaitGroup
	wg.Add(1)
	go func() { defer wg.Done(); io.Copy(&buf, r) }()
	func() {
		defer func() {
			if x := recover(); x != nil {
				pan = fmt.Sprint(x)
			}
		}()
		f()
	}()
	os.Stdout = old
	w.Close()
	wg.Wait()
	r.Close()
	return buf.String(), pan
}

func c16Message(c c16Case, rng *rand.Rand) string {
	prefix := map[string]string{".syn": ".syn close connection", ".syn1": ".syn", ".syn2": ".syn close", ".synb": ".syn  ", "other": []string{"foo", "remote", "Xyz", "0"}[rng.Intn(4)]}[c.Prefix]
	if prefix == "" {
		prefix = c.Prefix
	}
	last := map[string]string{"": "", "text": "some log text", "100": "100", "WARN": "WARN something odd", "ERROR": "ERROR|boom",
		"FATAL": "FATAL", "crlf": "dos line\r", "utf8": "grüße ✓ 日本", "esc": "\x1b[31mred\x1b[0m text", "OK": "OK",
		"indent": []string{"  ERROR indented", "\tWARN after a tab", " FATAL one blank", "   text only indented"}[rng.Intn(4)],
		"trail": []string{"ERROR trailing blanks   ", "text with a tab at the end\t", "WARN \t "}[rng.Intn(3)]}[c.Last]
	if c.Prefix == "AGGREGATE" || c.Prefix == "A" {
		last = map[string]string{"": "", "text": "hostA", "100": "g∥3∥count($line)≔3∥", "WARN": "g∥x∥count($line)≔1∥", "ERROR": "∥∥∥",
			"FATAL": "g∥2∥", "crlf": "g∥2∥count($line)≔\r∥", "utf8": "grüße∥1∥count($line)≔1∥", "esc": "∥", "OK": "a,b∥7∥count($line)≔7∥$hostname≔x∥",
			"indent": "  g∥1∥count($line)≔1∥", "trail": "g∥1∥count($line)≔1∥  "}[c.Last]
	}
	middle := []string{"vhost", fmt.Sprintf("%3d", []int{100, 99, 7}[rng.Intn(3)]), fmt.Sprint(1 + rng.Intn(5000)), "file.log", "x", "y"}
	fields := []string{prefix}
	for i := 0; i < c.NFields-2; i++ {
		fields = append(fields, middle[i%len(middle)])
	}
	if c.NFields >= 2 {
		fields = append(fields, last)
	} else if c.Last != "" {
		fields[0] = prefix + " " + last // a single field: prefix followed by text without delimiter
	}
	m := strings.Join(fields, "|")
	if c.NL {
		m += "\n"
	}
	return m
}

func TestC16Replay(t *testing.T) {
	vInit("stdout")
	var cases []c16Case
	vReadJSON(t, "VERIF_CASES", &cases)
	rng := rand.New(rand.NewSource(vSeed()))
	query, err := mapr.NewQuery("select count($line),$hostname group by $hostname")
	if err != nil {
		t.Fatal(err)
	}
	var bads []c16Bad
	evals := 0
	for _, c := range cases {
		msg := c16Message(c, rng)
		wire := append([]byte(msg), 0xAC)
		for _, hk := range []string{"client", "mapr", "health"} {
			outs := map[bool]string{}
			for _, colour := range []bool{false, true} {
				config.Client.TermColorsEnable = colour
				var h Handler
				switch hk {
				case "client":
					h = NewClientHandler("srv1")
				case "mapr":
					h = NewMaprHandler("srv1", query, mapr.NewGlobalGroupSet())
				default:
					h = NewHealthHandler("srv1")
				}
				evals++
				out, pan := c16Capture(func() { h.Write(wire) })
				h.Shutdown()
				outs[colour] = out
				if pan != "" && len(bads) < 300 {
					bads = append(bads, c16Bad{c, hk, colour, msg, "panic: " + pan, "", ""})
				}
			}
			if c16Esc.ReplaceAllString(outs[true], "") != c16Esc.ReplaceAllString(outs[false], "") && len(bads) < 300 {
				bads = append(bads, c16Bad{c, hk, true, msg, "colouring altered the text", outs[false], outs[true]})
			}
		}
	}
	config.Client.TermColorsEnable = false
	vWriteJSON(t, "VERIF_OUT", map[string]interface{}{"evaluations": evals, "bad": bads})
}

// (B) random server byte streams (several messages per write, 0xAC inside content, arbitrary chunking) through the
// client handler in both colour modes.
func TestC16Streams(t *testing.T) {
	vInit("stdout")
	rng := rand.New(rand.NewSource(vSeed()))
	n := 150
	fmt.Sscanf(os.Getenv("VERIF_N"), "%d", &n)
	query, _ := mapr.NewQuery("select count($line),$hostname group by $hostname")
	pieces := []string{"REMOTE|h|100|1|f|", "SERVER|h|", "CLIENT|h|WARN|", "AGGREGATE|h|", "REMOTE", "SERVER", "CLIENT", "|", "\n", "\xac", "\xac\xac",
		".syn close connection", ".", "text", "x\r\n", "WARN", "ERROR|", "g∥1∥count($line)≔1∥", "\x1b[0m", "é", "A", "\x00", " "}
	type rec struct {
		ID      int    `json:"id"`
		Stream  string `json:"stream"`
		Handler string `json:"handler"`
		Problem string `json:"problem"`
	}
	var bads []rec
	evals := 0
	for id := 1; id <= n; id++ {
		var sb strings.Builder
		for k := 0; k < 3+rng.Intn(12); k++ {
			sb.WriteString(pieces[rng.Intn(len(pieces))])
		}
		sb.WriteString("\xac")
		stream := []byte(sb.String())
		for _, hk := range []string{"client", "mapr", "health"} {
			outs := map[bool]string{}
			for _, colour := range []bool{false, true} {
				config.Client.TermColorsEnable = colour
				var h Handler
				switch hk {
				case "client":
					h = NewClientHandler("srv1")
				case "mapr":
					h = NewMaprHandler("srv1", query, mapr.NewGlobalGroupSet())
				default:
					h = NewHealthHandler("srv1")
				}
				evals++
				chunkRng := rand.New(rand.NewSource(int64(id)))
				out, pan := c16Capture(func() {
					rest := stream
					for len(rest) > 0 {
						k := 1 + chunkRng.Intn(len(rest))
						h.Write(rest[:k])
						rest = rest[k:]
					}
				})
				h.Shutdown()
				outs[colour] = out
				if pan != "" && len(bads) < 100 {
					bads = append(bads, rec{id, fmt.Sprintf("%q", stream), hk, fmt.Sprintf("colour=%v panic: %s", colour, pan)})
				}
			}
			if c16Esc.ReplaceAllString(outs[true], "") != c16Esc.ReplaceAllString(outs[false], "") && len(bads) < 100 {
				bads = append(bads, rec{id, fmt.Sprintf("%q", stream), hk, "colouring altered the text"})
			}
		}
	}
	config.Client.TermColorsEnable = false
	vWriteJSON(t, "VERIF_OUT", map[string]interface{}{"evaluations": evals, "bad": bads})
}

// (C) AGGREGATE payload shapes enumerated by TLC (spec/ClientMsg.tla AggShapes): every combination of sample count and
// part shapes through the real MaprHandler; nothing may panic, and the count carried by a well-formed field is taken
// over exactly when the Ref says so (a malformed neighbour must not make the handler lose or invent data).
type c16Agg struct {
	Samples  string   `json:"samples"`
	Parts    []string `json:"parts"`
	Trail    bool     `json:"trail"`
	Accepted bool     `json:"accepted"`
	Counted  bool     `json:"counted"`
}

func TestC16Agg(t *testing.T) {
	vInit("stdout")
	var cases []c16Agg
	vReadJSON(t, "VERIF_CASES", &cases)
	query, err := mapr.NewQuery("select count($line),last($msg) group by $hostname")
	if err != nil {
		t.Fatal(err)
	}
	type bad struct {
		Case    c16Agg `json:"case"`
		Message string `json:"message"`
		Problem string `json:"problem"`
	}
	var bads []bad
	evals := 0
	for _, c := range cases {
		samples := map[string]string{"num": "3", "bad": "x3", "": ""}[c.Samples]
		parts := []string{"hostA", samples}
		nkv := 0
		for _, p := range c.Parts {
			switch p {
			case "kv":
				nkv++
				if nkv == 1 {
					parts = append(parts, "count($line)≔3")
				} else {
					parts = append(parts, "last($msg)≔text")
				}
			case "kvkv":
				nkv++
				if nkv == 1 {
					parts = append(parts, "count($line)≔3≔4")
				} else {
					parts = append(parts, "last($msg)≔a≔b")
				}
			case "bare":
				parts = append(parts, "tail of a value")
			default:
				parts = append(parts, "")
			}
		}
		payload := strings.Join(parts, "∥")
		if c.Trail {
			payload += "∥"
		}
		for _, prefix := range []string{"AGGREGATE", "A"} {
			msg := prefix + "|srv1|" + payload
			for _, colour := range []bool{false, true} {
				config.Client.TermColorsEnable = colour
				global := mapr.NewGlobalGroupSet()
				h := NewMaprHandler("srv1", query, global)
				evals++
				_, pan := c16Capture(func() { h.Write(append([]byte(msg), 0xAC)) })
				h.Shutdown()
				if pan != "" && len(bads) < 100 {
					bads = append(bads, bad{c, msg, "panic: " + pan})
				}
			}
		}
	}
	config.Client.TermColorsEnable = false
	vWriteJSON(t, "VERIF_OUT", map[string]interface{}{"evaluations": evals, "bad": bads})
}

// The mapreduce result table a dmap client prints: AGGREGATE records with group keys and string values taken from log
// content (ASCII, umlauts, CJK, an emoji, an embedded ESC sequence) go through the real MaprHandler into the global result,
// which is rendered with and without colours; with the escape sequences removed both tables must be the same text.
func TestC16Table(t *testing.T) {
	vInit("stdout")
	query, err := mapr.NewQuery("select count($line),last($msg),$city group by $city order by count($line)")
	if err != nil {
		t.Fatal(err)
	}
	var bads []map[string]string
	evals := 0
	sets := [][]string{{"Berlin", "Oslo", "Rome"}, {"Zürich", "Kraków", "São Paulo"}, {"東京", "Köln", "x"}, {"a😀b", "ÅÄÖ", "plain"}}
	for _, cities := range sets {
		render := func(colour bool) string {
			config.Client.TermColorsEnable = colour
			global := mapr.NewGlobalGroupSet()
			h := NewMaprHandler("srv1", query, global)
			for i, c := range cities {
				msg := fmt.Sprintf("AGGREGATE|srv1|%s∥%d∥count($line)≔%d∥last($msg)≔grüße aus %s∥$city≔%s∥", c, i+1, i+1, c, c)
				h.Write(append([]byte(msg), 0xAC))
			}
			res, _, err := global.Result(query, 100)
			h.Shutdown()
			if err != nil {
				return "error: " + err.Error()
			}
			return res
		}
		plain := render(false)
		coloured := c16Esc.ReplaceAllString(render(true), "")
		evals++
		if plain != coloured {
			bads = append(bads, map[string]string{"uncoloured": plain, "coloured_without_escapes": coloured})
		}
	}
	config.Client.TermColorsEnable = false
	vWriteJSON(t, "VERIF_OUT", map[string]interface{}{"evaluations": evals, "bad": bads})
}
