package connectors

// C01 harness, exact scale: every (file, MaxLineLength, transport buffer, mode) case enumerated by TLC is concretised
// into real bytes and sent through the real cat reader, the real ServerHandler.Read(p) with a transport buffer of
// exactly P bytes, the real ClientHandler.Write and the real stdout logger; the captured stdout is compared with the
// Ref output computed by TLC.

import (
	"encoding/base64"
	"bytes"
	"compress/gzip"
	"context"
	"fmt"
	"io"
	"os"
	"path/filepath"
	"regexp"
	"strings"
	"sync"
	"testing"
	"time"

	"github.com/mimecast/dtail/internal/clients/handlers"
	"github.com/mimecast/dtail/internal/config"
	serverHandlers "github.com/mimecast/dtail/internal/server/handlers"
	user "github.com/mimecast/dtail/internal/user/server"

	"github.com/DataDog/zstd"
)

type c01Case struct {
	F       []string `json:"f"`
	M       int      `json:"m"`
	P       int      `json:"p"`
	Plain   bool     `json:"plain"`
	Exp     []string `json:"exp"`
	Impl    []string `json:"impl"`
	HasD    bool     `json:"hasd"`
	Dot     bool     `json:"dot"`
	TooLong bool     `json:"toolong"`
}

type c01Bad struct {
	Case    c01Case `json:"case"`
	Input   string  `json:"input"`
	Got     string  `json:"got"`
	Want    string  `json:"want"`
	ImplOut string  `json:"impl_model_output"`
	Problem string  `json:"problem"`
}

var c01Pool = []byte{'a', '%', 0x00, '\r', 0x1b, 0x7f, 0x80, 0xff, ';', '|', ' ', 'Z', '\t', 0xc3, '"', '\\'}

func c01Bytes(syms []string, idx int) []byte {
	x := c01Pool[idx%len(c01Pool)]
	y := c01Pool[(idx/len(c01Pool)+idx+1)%len(c01Pool)]
	if y == x {
		y = c01Pool[(idx+2)%len(c01Pool)]
	}
	out := make([]byte, 0, len(syms))
	for _, s := range syms {
		switch s {
		case "x":
			out = append(out, x)
		case "y":
			out = append(out, y)
		case "n":
			out = append(out, '\n')
		case "d":
			out = append(out, 0xAC)
		case "p":
			out = append(out, '.')
		}
	}
	return out
}

func c01Capture(f func()) string {
	old := os.Stdout
	r, w, _ := os.Pipe()
	os.Stdout = w
	var buf bytes.Buffer
	var wg sync.WaitGroup
	wg.Add(1)
	go func() { defer wg.Done(); io.Copy(&buf, r) }()
	f()
	os.Stdout = old
	w.Close()
	wg.Wait()
	r.Close()
	return buf.String()
}

// c01Session runs one cat session like connectors.Serverless.handle does, with a transport buffer of bufSize bytes.
func c01Session(path string, plain, serverless bool, bufSize int) (problem string) {
	u, err := user.New("vuser", "harness")
	if err != nil {
		return err.Error()
	}
	sh := serverHandlers.NewServerHandler(u, make(chan struct{}, 4), make(chan struct{}, 4))
	ch := handlers.NewClientHandler("local")
	ctx, cancel := context.WithCancel(context.Background())
	defer cancel()
	terminate := func() { sh.Shutdown(); cancel() }
	go func() { defer terminate(); io.Copy(sh, ch) }()
	srvDone := make(chan struct{})
	go func() { defer close(srvDone); defer terminate(); io.CopyBuffer(ch, struct{ io.Reader }{sh}, make([]byte, bufSize)) }()
	go func() {
		select {
		case <-ch.Done():
		case <-ctx.Done():
		}
		terminate()
	}()
	opts := []string{"quiet=true"}
	if plain {
		opts = append(opts, "plain=true")
	}
	if serverless {
		opts = append(opts, "serverless=true")
	}
	ch.SendMessage(fmt.Sprintf("cat:%s %s regex:noop ", strings.Join(opts, ":"), path))
	select {
	case <-ctx.Done():
	case <-time.After(20 * time.Second):
		problem = "session did not end within 20 s"
	}
	ch.Shutdown()
	sh.Shutdown()
	return
}

var c01Header = regexp.MustCompile(`REMOTE\|vhost\|\s*\d+\|\d+\|(f\.log[.a-z]*|f\.gz\.txt|notes\.zst\.old)\|`)

// c01Aborted runs a cat of a big file and shuts the session down after a few messages
func c01Aborted(dir string) {
	pf := filepath.Join(dir, "aborted.txt")
	if _, err := os.Stat(pf); err != nil {
		var pb strings.Builder
		for i := 0; i < 1500; i++ {
			fmt.Fprintf(&pb, "ABORTED-SESSION line %d %s\n", i, strings.Repeat("q", i%70))
		}
		os.WriteFile(pf, []byte(pb.String()), 0644)
	}
	old := config.Server.MaxLineLength
	config.Server.MaxLineLength = 1024 * 1024
	u, _ := user.New("vuser", "harness")
	ph := serverHandlers.NewServerHandler(u, make(chan struct{}, 2), make(chan struct{}, 2))
	go ph.Write([]byte(fmt.Sprintf("protocol 4.1 base64 %s;", base64.StdEncoding.EncodeToString([]byte("cat:quiet=true "+pf+" regex:noop ")))))
	buf := make([]byte, 4096)
	for i := 0; i < 25; i++ {
		ph.Read(buf)
	}
	ph.Shutdown()
	time.Sleep(10 * time.Millisecond)
	config.Server.MaxLineLength = old
}

func TestC01Exact(t *testing.T) {
	vInit("stdout")
	var cases []c01Case
	vReadJSON(t, "VERIF_CASES", &cases)
	dir, _ := os.MkdirTemp("", "c01-")
	defer os.RemoveAll(dir)
	var bads []c01Bad
	evals := 0
	for i, c := range cases {
		content := c01Bytes(c.F, i)
		path := filepath.Join(dir, "f.log")
		switch {
		case i%7 == 3: // transparent decompression by file name suffix
			path += []string{".gz", ".gzip"}[i%2]
			var zb bytes.Buffer
			// one gzip member, or several in a row (cat a.gz b.gz, gzip -c >>, pigz): gunzip yields their concatenation
			cuts := []int{len(content)}
			if i%14 == 3 && len(content) > 0 {
				cuts = []int{0, len(content) / 2, len(content)} // (an empty first member included)
			}
			prev := 0
			for _, cut := range cuts {
				zw := gzip.NewWriter(&zb)
				zw.Write(content[prev:cut])
				zw.Close()
				prev = cut
			}
			os.WriteFile(path, zb.Bytes(), 0644)
		case i%11 == 5:
			path += ".zst"
			zc, err := zstd.Compress(nil, content)
			if err != nil {
				t.Fatal(err)
			}
			os.WriteFile(path, zc, 0644)
		default:
			// plain files whose names merely contain a compression suffix somewhere: only the END of the name decides
			switch i % 5 {
			case 1:
				path = filepath.Join(dir, "f.gz.txt")
			case 2:
				path = filepath.Join(dir, "notes.zst.old")
			case 3:
				os.MkdirAll(filepath.Join(dir, "archive.gzip.d"), 0755)
				path = filepath.Join(dir, "archive.gzip.d", "f.log")
			}
			os.WriteFile(path, content, 0644)
		}
		config.Server.MaxLineLength = c.M
		p := c.P
		if !c.Plain {
			p = c.P - 2 + len("REMOTE|vhost|100|1|") + len(filepath.Base(path)) + 1 // the model's header is 2 bytes long
		}
		if i%9 == 4 {
			c01Aborted(dir) // a session of the same process that is cut off in the middle of a big file: nothing of it may resurface
		}
		var problem string
		out := c01Capture(func() { problem = c01Session(path, c.Plain, true, p) })
		evals++
		got := out
		if !c.Plain {
			got = c01Header.ReplaceAllString(out, "")
		}
		want := string(c01Bytes(c.Exp, i))
		if problem != "" || got != want {
			if len(bads) < 300 {
				bads = append(bads, c01Bad{c, fmt.Sprintf("%q", content), fmt.Sprintf("%q", got), fmt.Sprintf("%q", want),
					fmt.Sprintf("%q", c01Bytes(c.Impl, i)), problem})
			}
		}
	}
	config.Server.MaxLineLength = 1024 * 1024
	vWriteJSON(t, "VERIF_OUT", map[string]interface{}{"evaluations": evals, "bad": bads})
}

// A consumer that stalls for longer than the reader's 3 s truncation-check period: the content must still be complete.
// Once with a plain file and once with a compressed one (the reader's position then counts decompressed bytes, the file's
// size compressed ones).
func TestC01SlowConsumer(t *testing.T) {
	vInit("stdout")
	dir, _ := os.MkdirTemp("", "c01s-")
	defer os.RemoveAll(dir)
	var sb strings.Builder
	for i := 0; i < 3000; i++ {
		fmt.Fprintf(&sb, "line %05d of a file that takes a while to read %s\n", i, strings.Repeat("=", i%50))
	}
	sb.WriteString("LAST LINE WITHOUT NEWLINE")
	config.Server.MaxLineLength = 1024 * 1024
	var results []map[string]interface{}
	for _, variant := range []string{"plain", "gz"} {
		path := filepath.Join(dir, "f.log")
		if variant == "gz" {
			path += ".gz"
			var zb bytes.Buffer
			zw := gzip.NewWriter(&zb)
			zw.Write([]byte(sb.String()))
			zw.Close()
			os.WriteFile(path, zb.Bytes(), 0644)
		} else {
			os.WriteFile(path, []byte(sb.String()), 0644)
		}
		old := os.Stdout
		r, w, _ := os.Pipe()
		os.Stdout = w
		var buf bytes.Buffer
		done := make(chan struct{})
		go func() {
			time.Sleep(3800 * time.Millisecond) // the pipe fills up, the client blocks, the reader waits on its full queues
			io.Copy(&buf, r)
			close(done)
		}()
		problem := c01Session(path, true, true, 32*1024)
		os.Stdout = old
		w.Close()
		<-done
		r.Close()
		results = append(results, map[string]interface{}{"variant": variant, "problem": problem, "equal": buf.String() == sb.String(),
			"got_len": buf.Len(), "want_len": sb.Len(), "tail": fmt.Sprintf("%q", buf.String()[c01Max(0, buf.Len()-60):])})
	}
	vWriteJSON(t, "VERIF_OUT", results)
}

// Lines that begin with a dot, and one that begins with the text of the close message itself, in plain mode.
func TestC01SynText(t *testing.T) {
	vInit("stdout")
	dir, _ := os.MkdirTemp("", "c01y-")
	defer os.RemoveAll(dir)
	config.Server.MaxLineLength = 1024 * 1024
	var results []map[string]interface{}
	for _, content := range []string{
		"first\n.hidden looking line\n..\n.\nlast\n",
		".synthetic line\n.sy\n.ack close connection\nend\n",
		// lines that look like records or messages of the protocol, blank and whitespace-only lines, fragments of the close message
		"SERVER|host1|WARN|a line of a dtail log\nCLIENT|1|INFO|x\nREMOTE|h|100|1|f|y\nAGGREGATE|h|g\nSERVER|\nend\n",
		"para 1\n\n   \n\t\npara 2\n \n\n",
		"a\n.syn\n.syn close\n.syn  \n.ack\nz\n",
		"before\n.syn close connection said the log\nafter 1\nafter 2\n",
	} {
		path := filepath.Join(dir, "dots.log")
		os.WriteFile(path, []byte(content), 0644)
		var problem string
		out := c01Capture(func() { problem = c01Session(path, true, true, 32*1024) })
		// signature of the open finding: the line is not printed and the session ends there or shortly after (the client's
		// shutdown races with the copy loop): the output is a prefix of the file without that line, at least up to it
		cut := strings.Index(content, ".syn close connection")
		sig := false
		if cut >= 0 && problem == "" {
			rest := content[cut:]
			without := content[:cut] + rest[strings.Index(rest, "\n")+1:]
			sig = strings.HasPrefix(without, out) && len(out) >= cut
		}
		results = append(results, map[string]interface{}{"content": content, "output": out, "equal": out == content && problem == "", "problem": problem,
			"prefix_until_syn_line": sig})
	}
	vWriteJSON(t, "VERIF_OUT", results)
}

func c01Max(a, b int) int {
	if a > b {
		return a
	}
	return b
}
