package connectors

// C07 harness: several real server sessions (distinct host names, several files each through a glob) and one real
// client handler per connection; the harness IS the transport and runs the copy loops in the order and with the buffer
// sizes of a TLC behaviour of spec/Mux.tla (then round-robin until every session ended).  stdout (one logger for all
// connections) is parsed into REMOTE records; every record must be exactly one line of one source, labelled with that
// source's host, file id and running number, and each source's lines must keep their order.

import (
	"fmt"
	"math/rand"
	"os"
	"path/filepath"
	"strings"
	"testing"
	"time"

	"github.com/mimecast/dtail/internal/clients/handlers"
	"github.com/mimecast/dtail/internal/config"
	serverHandlers "github.com/mimecast/dtail/internal/server/handlers"
	user "github.com/mimecast/dtail/internal/user/server"
)

type c07Case struct {
	Grep  bool    `json:"grep"` // grep with before/after context instead of cat: the running numbers must still be the line numbers
	ID    int     `json:"id"`
	Sched [][]int `json:"sched"` // [conn, model buffer size]
	Kind  string  `json:"kind"`  // exact | bulk
	Seed  int64   `json:"seed"`
}

type c07Result struct {
	ID      int      `json:"id"`
	Records int      `json:"records"`
	Lines   int      `json:"lines"`
	Bad     []string `json:"bad"`
	Problem string   `json:"problem"`
}

func c07Run(c c07Case, base string) (res c07Result) {
	res.ID = c.ID
	rng := rand.New(rand.NewSource(c.Seed))
	dir := filepath.Join(base, fmt.Sprintf("case%d", c.ID))
	defer os.RemoveAll(dir)
	hosts := []string{"hostA", "hostB", "hostC"}
	nconn := 2 + rng.Intn(2)
	source := map[string][]string{} // "host|id" -> lines
	u, _ := user.New("vuser", "harness")
	shs := make([]*serverHandlers.ServerHandler, nconn)
	chs := make([]*handlers.ClientHandler, nconn)
	total := 0
	for ci := 0; ci < nconn; ci++ {
		cdir := filepath.Join(dir, hosts[ci])
		os.MkdirAll(cdir, 0755)
		nfiles := 1 + rng.Intn(3)
		for fi := 0; fi < nfiles; fi++ {
			name := fmt.Sprintf("f%d.log", fi+1)
			nlines := 1 + rng.Intn(8)
			if c.Kind == "bulk" {
				nlines = 20 + rng.Intn(150)
			}
			var sb strings.Builder
			var lines []string
			for li := 0; li < nlines; li++ {
				length := 1 + rng.Intn(60)
				if c.Kind == "bulk" {
					switch rng.Intn(12) {
					case 0:
						length = 16000 + rng.Intn(16000) // between half a transport buffer and a full one
					case 1:
						length = 33000 + rng.Intn(70000) // larger than one transport read
					default:
						length = 5 + rng.Intn(300)
					}
				}
				payload := make([]byte, length)
				for k := range payload {
					payload[k] = "abcdefghijklmnopqrstuvwxyz0123456789 |;:,.%"[rng.Intn(43)]
				}
				l := fmt.Sprintf("%s/%s/%d:%s", hosts[ci], name, li+1, payload)
				lines = append(lines, l)
				sb.WriteString(l)
				sb.WriteString("\n")
			}
			content := sb.String()
			if rng.Intn(3) == 0 {
				content = strings.TrimSuffix(content, "\n") // a file whose last line is not terminated
			}
			os.WriteFile(filepath.Join(cdir, name), []byte(content), 0644)
			source[hosts[ci]+"|"+name] = lines
			total += nlines
		}
		os.Setenv("DTAIL_HOSTNAME_OVERRIDE", hosts[ci])
		shs[ci] = serverHandlers.NewServerHandler(u, make(chan struct{}, 8), make(chan struct{}, 8))
		chs[ci] = handlers.NewClientHandler(hosts[ci])
	}
	os.Setenv("DTAIL_HOSTNAME_OVERRIDE", "vhost")
	res.Lines = total
	dirGlob := map[string]bool{}
	for ci := 0; ci < nconn; ci++ {
		// the command direction is an ordinary copy loop
		go func(ci int) {
			buf := make([]byte, 4096)
			for {
				n, err := chs[ci].Read(buf)
				if n > 0 {
					shs[ci].Write(buf[:n])
				}
				if err != nil {
					return
				}
			}
		}(ci)
		// the same files under different spellings of the glob (the identifier of a file must not depend on it)
		srng := rand.New(rand.NewSource(c.Seed + int64(ci)*7919))
		glob := dir + []string{"/", "/", "//", "/./"}[srng.Intn(4)] + hosts[ci] + []string{"/", "/", "//", "/./"}[srng.Intn(4)] + "*.log"
		if srng.Intn(4) == 0 {
			// wildcards in a directory component and in the file name: the identifier is "<directory>/<file>"
			glob = dir + []string{"/", "//", "/./"}[srng.Intn(3)] + hosts[ci] + "*/*.log"
			dirGlob[hosts[ci]] = true
		}
		if c.Grep {
			chs[ci].SendMessage(fmt.Sprintf("grep:quiet=true:before=%d:after=%d %s regex:default %s", 1+rng.Intn(3), rng.Intn(2),
				glob, []string{"7", "[a-c]x", ":a", "9.*z"}[rng.Intn(4)]))
		} else {
			chs[ci].SendMessage(fmt.Sprintf("cat:quiet=true %s regex:noop ", glob))
		}
	}
	if c.Kind == "bulk" {
		time.Sleep(30 * time.Millisecond) // let the readers fill the lines channels: a backlog
	}
	scale := map[int]int{2: 16, 5: 64}
	buf := make([]byte, 64*1024)
	done := func(ci int) bool {
		select {
		case <-chs[ci].Done():
			return true
		default:
			return false
		}
	}
	out := c01Capture(func() {
		step := func(ci, p int) {
			if ci >= nconn || done(ci) {
				return
			}
			n, _ := shs[ci].Read(buf[:p])
			if n > 0 {
				chs[ci].Write(buf[:n])
			}
		}
		for _, s := range c.Sched {
			p := scale[s[1]]
			if c.Kind == "bulk" {
				p = []int{4096, 32768}[s[1]%2]
			}
			step(s[0]-1, p)
		}
		limit := 6 * time.Second
		if c.Kind == "bulk" {
			limit = 20 * time.Second
		}
		deadline := time.Now().Add(limit)
		for time.Now().Before(deadline) {
			all := true
			for ci := 0; ci < nconn; ci++ {
				if !done(ci) {
					all = false
					p := []int{16, 64, 4096, 32768}[rng.Intn(4)]
					if c.Kind == "bulk" {
						p = []int{4096, 32768, 32768}[rng.Intn(3)]
					}
					step(ci, p)
				}
			}
			if all {
				break
			}
		}
	})
	for ci := 0; ci < nconn; ci++ {
		if !done(ci) {
			res.Problem = "a session did not end"
		}
		chs[ci].Shutdown()
		shs[ci].Shutdown()
	}
	// ---- oracle
	seen := map[string]int{} // source -> last running number
	for _, rec := range strings.SplitAfter(out, "\n") {
		if rec == "" {
			continue
		}
		res.Records++
		if !strings.HasSuffix(rec, "\n") {
			res.Bad = append(res.Bad, fmt.Sprintf("output does not end with a whole line: %.80q", rec))
			continue
		}
		f := strings.SplitN(strings.TrimSuffix(rec, "\n"), "|", 6)
		if len(f) != 6 || f[0] != "REMOTE" {
			res.Bad = append(res.Bad, fmt.Sprintf("not a REMOTE record: %.100q", rec))
			continue
		}
		id := f[4]
		if dirGlob[f[1]] {
			if !strings.HasPrefix(id, f[1]+"/") {
				res.Bad = append(res.Bad, fmt.Sprintf("file identifier %q of host %s is not <directory>/<file>: %.80q", id, f[1], rec))
				continue
			}
			id = strings.TrimPrefix(id, f[1]+"/")
		}
		key := f[1] + "|" + id
		lines, ok := source[key]
		var n int
		fmt.Sscanf(strings.TrimSpace(f[3]), "%d", &n)
		switch {
		case !ok:
			res.Bad = append(res.Bad, fmt.Sprintf("record labelled with an unknown source %q: %.80q", key, rec))
		case n < 1 || n > len(lines) || lines[n-1] != f[5]:
			res.Bad = append(res.Bad, fmt.Sprintf("record %s #%d is not line %d of that source (%d bytes): %.90q", key, n, n, len(f[5]), f[5]))
		case n <= seen[key]:
			res.Bad = append(res.Bad, fmt.Sprintf("source %s: line %d after line %d", key, n, seen[key]))
		default:
			seen[key] = n
		}
		if len(res.Bad) > 8 {
			break
		}
	}
	if len(res.Bad) == 0 && res.Records != total && !c.Grep {
		res.Bad = append(res.Bad, fmt.Sprintf("%d records for %d lines", res.Records, total))
	}
	return
}

func TestC07Replay(t *testing.T) {
	vInit("stdout")
	config.Server.MaxLineLength = 1024 * 1024
	var cases []c07Case
	vReadJSON(t, "VERIF_CASES", &cases)
	base, _ := os.MkdirTemp("", "c07-")
	defer os.RemoveAll(base)
	var results []c07Result
	stuck := 0
	for _, c := range cases {
		if stuck >= 3 {
			results = append(results, c07Result{ID: c.ID, Problem: "skipped: three earlier sessions did not end"})
			continue
		}
		r := c07Run(c, base)
		if r.Problem != "" {
			stuck++
		}
		results = append(results, r)
	}
	vWriteJSON(t, "VERIF_OUT", results)
}
