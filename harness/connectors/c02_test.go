package connectors

// C02 harness: one real server session and one real client handler; the harness is the transport in both directions
// and takes its steps - deliver command k, run one iteration of the server->client copy loop - in the order of a TLC
// behaviour of spec/Session.tla, at a pace chosen per case (no waiting, wait for quiescence, stall beyond the server's
// flush window).  Afterwards it keeps copying until the session ends by itself.  The captured output must contain
// every selected line of every file exactly once and in file order.  The vhook trace of the server handler is returned
// for trace validation and for attributing a loss to a named deviation.

import (
	"encoding/base64"
	"fmt"
	"math/rand"
	"os"
	"path/filepath"
	"reflect"
	"strings"
	"sync"
	"testing"
	"time"

	"github.com/mimecast/dtail/internal/clients/handlers"
	"github.com/mimecast/dtail/internal/config"
	serverHandlers "github.com/mimecast/dtail/internal/server/handlers"
	user "github.com/mimecast/dtail/internal/user/server"
)

type c02Step struct {
	A string `json:"a"`
	K int    `json:"k"`
}

type c02Case struct {
	ID     int       `json:"id"`
	Cmds   [][]int   `json:"cmds"`  // per command the line counts of its files (several files = a glob)
	Steps  []c02Step `json:"steps"` // controllable steps in TLC's order
	Pace   string    `json:"pace"`  // fast | quiescent | stall
	StallAt int      `json:"stallat"`
	StallMs int      `json:"stallms"`
	Grep   bool      `json:"grep"`
	CatLimit int     `json:"catlimit"`
	Seed   int64     `json:"seed"`
	Scale  int       `json:"scale"` // one model line = Scale real lines (+ jitter), one model read = Scale copy iterations
	Lines  [][]int   `json:"lines"` // real line counts per command/file (computed by the driver)
	NoFinalNL bool   `json:"nofinalnl"` // the files end without a newline
	Max       int    `json:"max"`       // grep only: stop after so many selected lines per file (the reader is cancelled, the rest of
	                                    // the file is never queued; the session must still end)
	Prelude   bool   `json:"prelude"`   // before the session: another session of the same process is cut off in the middle of a big file
	DrainUs   int    `json:"drainus"`   // after the behaviour: a consumer that needs this many microseconds per message (the
	                                    // readers stay ahead of it, their queues are full when they reach the end of the file)
}

type c02Result struct {
	ID        int                      `json:"id"`
	Expected  map[string]int           `json:"expected"`
	Delivered map[string]int           `json:"delivered"`
	Bad       []string                 `json:"bad"`
	Ended     bool                     `json:"ended"`
	Trace     []map[string]interface{} `json:"trace"`
	Problem   string                   `json:"problem"`
}

var c02Mu sync.Mutex
var c02Rec = map[uintptr]*vRecorder{} // keyed by the address of the handler (baseHandler is its first field)

func c02Install() {
	vhookInstall(func(point string, kv ...interface{}) {
		if len(kv) == 0 {
			return
		}
		rv := reflect.ValueOf(kv[0])
		if rv.Kind() != reflect.Ptr {
			return
		}
		c02Mu.Lock()
		r := c02Rec[rv.Pointer()]
		c02Mu.Unlock()
		if r != nil {
			r.add(point, kv...)
		}
	})
}

func c02Run(c c02Case, base string) (res c02Result) {
	res.ID = c.ID
	rng := rand.New(rand.NewSource(c.Seed))
	dir := filepath.Join(base, fmt.Sprintf("case%d", c.ID))
	defer os.RemoveAll(dir)
	res.Expected = map[string]int{}
	res.Delivered = map[string]int{}
	source := map[string][]string{}
	for k, files := range c.Cmds {
		cdir := filepath.Join(dir, fmt.Sprintf("c%d", k+1))
		os.MkdirAll(cdir, 0755)
		for fi := range files {
			n := c.Lines[k][fi]
			name := fmt.Sprintf("c%df%d.log", k+1, fi+1)
			var sb strings.Builder
			var sel []string
			for li := 0; li < n; li++ {
				l := fmt.Sprintf("%s line %d %s", name, li+1, strings.Repeat("x", rng.Intn(40)))
				sb.WriteString(l + "\n")
				if !c.Grep || strings.Contains(l, "7") || li%3 == 0 {
					if !c.Grep || strings.Contains(l, "7") {
						sel = append(sel, l)
					}
				}
			}
			content := sb.String()
			if c.NoFinalNL {
				content = strings.TrimSuffix(content, "\n")
			}
			os.WriteFile(filepath.Join(cdir, name), []byte(content), 0644)
			if c.Grep && c.Max > 0 && len(sel) > c.Max {
				sel = sel[:c.Max]
			}
			source[name] = sel
			res.Expected[name] = len(sel)
		}
	}
	if c.Seed%4 == 1 {
		// the glob also matches something that is not a readable file: it is refused, the rest is delivered, the session ends
		for k := range c.Cmds {
			os.MkdirAll(filepath.Join(dir, fmt.Sprintf("c%d", k+1), "archive.log"), 0755)
		}
	}
	u, _ := user.New("vuser", "harness")
	if c.Prelude {
		// an aborted session leaves its readers in the middle of a line; whatever they held (pooled buffers, limiter slots)
		// must not show up in the session that follows
		pf := filepath.Join(dir, "prelude.txt")
		var pb strings.Builder
		for i := 0; i < 1500; i++ {
			fmt.Fprintf(&pb, "PRELUDE-STALE line %d %s\n", i, strings.Repeat("p", i%70))
		}
		os.WriteFile(pf, []byte(pb.String()), 0644)
		ph := serverHandlers.NewServerHandler(u, make(chan struct{}, 2), make(chan struct{}, 2))
		go ph.Write([]byte(fmt.Sprintf("protocol 4.1 base64 %s;", base64.StdEncoding.EncodeToString([]byte("cat:quiet=true "+pf+" regex:noop ")))))
		pbuf := make([]byte, 4096)
		for i := 0; i < 1+rng.Intn(40); i++ {
			ph.Read(pbuf)
		}
		ph.Shutdown()
		time.Sleep(time.Duration(1+rng.Intn(20)) * time.Millisecond)
	}
	limit := c.CatLimit
	if limit <= 0 {
		limit = 2
	}
	sh := serverHandlers.NewServerHandler(u, make(chan struct{}, limit), make(chan struct{}, 4))
	ch := handlers.NewClientHandler("local")
	rec := newRecorder()
	c02Mu.Lock()
	c02Rec[reflect.ValueOf(sh).Pointer()] = rec
	c02Mu.Unlock()
	defer func() { c02Mu.Lock(); delete(c02Rec, reflect.ValueOf(sh).Pointer()); c02Mu.Unlock() }()
	// client side: all commands are queued like connectors do (SendMessage blocks until the copy loop takes one)
	go func() {
		for k := range c.Cmds {
			mode, regex := "cat", "regex:noop "
			if c.Grep {
				mode, regex = "grep", "regex:default 7"
				if c.Max > 0 {
					mode = fmt.Sprintf("grep:max=%d", c.Max)
				}
			}
			ch.SendMessage(fmt.Sprintf("%s:quiet=true %s %s", mode, filepath.Join(dir, fmt.Sprintf("c%d", k+1), "*.log"), regex))
		}
	}()
	// command direction: one iteration of io.Copy(serverHandler, clientHandler) per permit
	permits := make(chan struct{}, 64)
	go func() {
		buf := make([]byte, 32*1024)
		for range permits {
			n, err := ch.Read(buf)
			if n > 0 {
				rec.add("harness.send", sh)
				// the transport hands the command over in one piece or cut anywhere (an SSH channel coalesces and cuts at its
				// buffer's end, not at command boundaries); may block while the handler waits for the .ack
				if c.Seed%3 == 0 && n > 4 {
					k := 1 + int(c.Seed/3)%(n-1)
					sh.Write(buf[:k])
					sh.Write(buf[k:n])
				} else {
					sh.Write(buf[:n])
				}
			}
			if err != nil {
				return
			}
		}
	}()
	settle := func(maxWait time.Duration) {
		last, stable := -1, 0
		deadline := time.Now().Add(maxWait)
		for time.Now().Before(deadline) {
			n := len(rec.snapshot())
			if n == last {
				stable++
				if stable >= 8 {
					return
				}
			} else {
				stable, last = 0, n
			}
			time.Sleep(2 * time.Millisecond)
		}
	}
	done := func() bool {
		select {
		case <-ch.Done():
			return true
		default:
			return false
		}
	}
	buf := make([]byte, 32*1024)
	out := c01Capture(func() {
		copyOnce := func() int {
			if done() {
				return 0
			}
			rec.add("harness.read", sh)
			n, _ := sh.Read(buf)
			if n > 0 {
				ch.Write(buf[:n])
			}
			return n
		}
		sent := 0
		for i, st := range c.Steps {
			switch st.A {
			case "send":
				if sent < len(c.Cmds) {
					permits <- struct{}{}
					sent++
				}
			case "read":
				for r := 0; r < c.Scale; r++ {
					copyOnce()
				}
			}
			switch c.Pace {
			case "quiescent":
				settle(300 * time.Millisecond)
			case "stall":
				settle(300 * time.Millisecond)
				if i == c.StallAt {
					time.Sleep(time.Duration(c.StallMs) * time.Millisecond)
				}
			}
		}
		for sent < len(c.Cmds) {
			permits <- struct{}{}
			sent++
		}
		idle := 0
		deadline := time.Now().Add(30 * time.Second)
		for !done() && time.Now().Before(deadline) && idle < 8 {
			if copyOnce() == 0 {
				idle++ // Read returns 0 bytes after waiting a second for something to send
			} else {
				idle = 0
			}
			if c.DrainUs > 0 {
				time.Sleep(time.Duration(c.DrainUs) * time.Microsecond)
			}
		}
	})
	res.Ended = done()
	close(permits)
	ch.Shutdown()
	sh.Shutdown()
	next := map[string]int{}
	for _, recd := range strings.SplitAfter(out, "\n") {
		if recd == "" {
			continue
		}
		if strings.HasPrefix(recd, "SERVER|") {
			continue // a message of the server (a refused path), not content
		}
		f := strings.SplitN(strings.TrimSuffix(recd, "\n"), "|", 6)
		if len(f) != 6 || f[0] != "REMOTE" {
			if len(res.Bad) < 5 {
				res.Bad = append(res.Bad, fmt.Sprintf("unexpected output %.80q", recd))
			}
			continue
		}
		name := f[4]
		lines := source[name]
		i := next[name]
		if i >= len(lines) || lines[i] != f[5] {
			if len(res.Bad) < 5 {
				res.Bad = append(res.Bad, fmt.Sprintf("%s: got %.60q where selected line %d was due", name, f[5], i+1))
			}
			continue
		}
		next[name]++
		res.Delivered[name]++
	}
	for _, e := range rec.snapshot() {
		m := map[string]interface{}{"ev": strings.TrimPrefix(e.Point, "harness.")}
		if len(e.Args) >= 2 {
			m["v"] = fmt.Sprint(e.Args[1])
		}
		if len(e.Args) >= 3 {
			m["w"] = fmt.Sprint(e.Args[2])
		}
		res.Trace = append(res.Trace, m)
	}
	return
}

func TestC02Replay(t *testing.T) {
	vInit("stdout")
	config.Server.MaxLineLength = 1024 * 1024
	c02Install()
	var cases []c02Case
	vReadJSON(t, "VERIF_CASES", &cases)
	base, _ := os.MkdirTemp("", "c02-")
	defer os.RemoveAll(base)
	var results []c02Result
	for _, c := range cases {
		results = append(results, c02Run(c, base))
	}
	vWriteJSON(t, "VERIF_OUT", results)
}
