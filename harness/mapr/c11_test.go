package mapr

// C11 harness: every derivation of the grammar generator (spec/Query.tla, enumerated by TLC) is rendered in several
// surface variations (keyword case, comma/blank style, tab/newline/CRLF white space) and parsed by the real NewQuery;
// every field of the parsed query is compared with the denotation; invalid derivations must yield an error; nothing
// may panic.

import (
	"encoding/json"
	"fmt"
	"math/rand"
	"strings"
	"testing"
	"time"
)

type c11Tok struct {
	S    string `json:"s"`
	Bare bool   `json:"bare"`
	Form string `json:"form"`
}

type c11Clause struct {
	Kind string   `json:"kind"`
	Kw   []string `json:"kw"`
	Args []c11Tok `json:"args"`
	Den  string   `json:"den"`
}

type c11Case struct {
	IDs      []string    `json:"ids"`
	Valid    bool        `json:"valid"`
	Clauses  []c11Clause `json:"clauses"`
	EmptyStr bool        `json:"emptystr"`
	LoneBq   bool        `json:"lonebq"`
}

type c11Bad struct {
	IDs     []string `json:"ids"`
	Query   string   `json:"query"`
	Valid   bool     `json:"valid"`
	Problem string   `json:"problem"`
	Tags    []string `json:"tags"`
}

func c11Case_(s string, mode int) string {
	switch mode {
	case 1:
		return strings.ToUpper(s)
	case 2:
		return strings.ToUpper(s[:1]) + s[1:]
	}
	return s
}

func c11Render(c c11Case, rng *rand.Rand, style int) string {
	wsPool := [][]string{{" "}, {" ", "  "}, {"\t", " "}, {"\n", " "}, {"\r\n", " "}, {"\n    ", " "}, {" ", "\t\t"}}
	ws := wsPool[style%len(wsPool)]
	kwcase := style % 3
	commaStyle := (style / 3) % 4 // 0: blanks only, 1: ",", 2: ", ", 3: " , "
	var sb strings.Builder
	for ci, cl := range c.Clauses {
		if ci > 0 {
			sb.WriteString(ws[0])
		}
		for ki, k := range cl.Kw {
			if ki > 0 {
				sb.WriteString(ws[len(ws)-1])
			}
			sb.WriteString(c11Case_(k, kwcase))
		}
		for ai, a := range cl.Args {
			sep := ws[len(ws)-1]
			if ai > 0 && commaStyle > 0 && (cl.Kind == "select" || cl.Kind == "group") {
				sep = []string{"", ",", ", ", " , "}[commaStyle]
			}
			text := a.S
			switch {
			case a.Form == "bq":
				text = "`" + a.S + "`"
			case a.Form == "lonebq":
				text = "`"
			case !a.Bare:
				text = "\"" + a.S + "\""
			}
			if a.Bare && a.Form == "plain" && a.S == "and" && cl.Kind == "where" {
				if rng.Intn(3) == 0 {
					sb.WriteString(",") // conditions may be separated by a comma instead of 'and'
					continue
				}
				text = c11Case_("and", kwcase)
			}
			sb.WriteString(sep)
			sb.WriteString(text)
		}
	}
	return sb.String()
}

var c11Ops = map[string]AggregateOperation{"count": Count, "sum": Sum, "min": Min, "max": Max, "last": Last, "avg": Avg, "len": Len}
var c11QOps = map[string]QueryOperation{"stringeq": StringEq, "stringne": StringNe, "stringcontains": StringContains,
	"stringnotcontains": StringNotContains, "stringhasprefix": StringHasPrefix, "stringnothasprefix": StringNotHasPrefix,
	"stringhassuffix": StringHasSuffix, "stringnothassuffix": StringNotHasSuffix, "floateq": FloatEq, "floatne": FloatNe,
	"floatlt": FloatLt, "floatle": FloatLe, "floatgt": FloatGt, "floatge": FloatGe}
var c11FT = map[string]fieldType{"field": Field, "string": String, "float": Float, "functionstack": FunctionStack}

type c11Operand struct {
	T string  `json:"t"`
	S string  `json:"s"`
	F float64 `json:"f"`
}

// c11Compare returns "" when the parsed query equals the denotation.
func c11Compare(c c11Case, q *Query, raw string) string {
	want := struct {
		sel      []map[string]string
		table    string
		where    []struct{ L, R c11Operand; Op string }
		set      []struct {
			L, Rtype, R string
			F           float64
			Funcs       []string
		}
		group    []string
		groupSet bool
		order    string
		rorder   bool
		interval int
		limit    int
		outfile  *struct {
			Path   string
			Append bool
		}
		logformat string
	}{interval: 5, limit: -1}
	for _, cl := range c.Clauses {
		d := []byte(cl.Den)
		switch cl.Kind {
		case "select":
			json.Unmarshal(d, &want.sel)
		case "from":
			json.Unmarshal(d, &want.table)
		case "where":
			var w []struct {
				L  c11Operand `json:"l"`
				Op string     `json:"op"`
				R  c11Operand `json:"r"`
			}
			json.Unmarshal(d, &w)
			for _, x := range w {
				want.where = append(want.where, struct{ L, R c11Operand; Op string }{x.L, x.R, x.Op})
			}
		case "set":
			var s []struct {
				L     string   `json:"l"`
				Rtype string   `json:"rtype"`
				R     string   `json:"r"`
				F     float64  `json:"f"`
				Funcs []string `json:"funcs"`
			}
			json.Unmarshal(d, &s)
			for _, x := range s {
				want.set = append(want.set, struct {
					L, Rtype, R string
					F           float64
					Funcs       []string
				}{x.L, x.Rtype, x.R, x.F, x.Funcs})
			}
		case "group":
			json.Unmarshal(d, &want.group)
			want.groupSet = true
		case "order":
			json.Unmarshal(d, &want.order)
		case "rorder":
			json.Unmarshal(d, &want.order)
			want.rorder = true
		case "interval":
			json.Unmarshal(d, &want.interval)
		case "limit":
			json.Unmarshal(d, &want.limit)
		case "outfile":
			var o struct {
				Path   string `json:"path"`
				Append bool   `json:"append"`
			}
			json.Unmarshal(d, &o)
			want.outfile = &struct {
				Path   string
				Append bool
			}{o.Path, o.Append}
		case "logformat":
			json.Unmarshal(d, &want.logformat)
		}
	}
	if q.RawQuery != raw {
		return "RawQuery differs"
	}
	if len(q.Select) != len(want.sel) {
		return fmt.Sprintf("select list has %d items, denotes %d: %v", len(q.Select), len(want.sel), q.Select)
	}
	for i, s := range want.sel {
		g := q.Select[i]
		if g.Field != s["field"] || g.FieldStorage != s["storage"] || g.Operation != c11Ops[s["op"]] {
			return fmt.Sprintf("select item %d is %v, denotes %v", i, g, s)
		}
	}
	if q.Table != want.table {
		return fmt.Sprintf("table %q, denotes %q", q.Table, want.table)
	}
	if len(q.Where) != len(want.where) {
		return fmt.Sprintf("%d where conditions, denotes %d: %v", len(q.Where), len(want.where), q.Where)
	}
	for i, w := range want.where {
		g := q.Where[i]
		if g.Operation != c11QOps[w.Op] || g.lType != c11FT[w.L.T] || g.lString != w.L.S || g.rType != c11FT[w.R.T] || g.rString != w.R.S ||
			(w.L.T == "float" && g.lFloat != w.L.F) || (w.R.T == "float" && g.rFloat != w.R.F) {
			return fmt.Sprintf("where condition %d is %s, denotes %v", i, g.String(), w)
		}
	}
	if len(q.Set) != len(want.set) {
		return fmt.Sprintf("%d set assignments, denotes %d", len(q.Set), len(want.set))
	}
	for i, s := range want.set {
		g := q.Set[i]
		names := []string{}
		for _, f := range g.functionStack {
			names = append(names, f.Name)
		}
		if g.lString != s.L || g.rType != c11FT[s.Rtype] || g.rString != s.R || (s.Rtype == "float" && g.rFloat != s.F) ||
			strings.Join(names, ",") != strings.Join(s.Funcs, ",") {
			return fmt.Sprintf("set assignment %d is %s, denotes %v", i, g.String(), s)
		}
	}
	wantGroup := want.group
	if !want.groupSet {
		wantGroup = []string{want.sel[0]["field"]}
	}
	if strings.Join(q.GroupBy, "\x00") != strings.Join(wantGroup, "\x00") {
		return fmt.Sprintf("group by %v, denotes %v", q.GroupBy, wantGroup)
	}
	if want.groupSet && q.GroupKey != strings.Join(wantGroup, ",") {
		return fmt.Sprintf("group key %q", q.GroupKey)
	}
	if q.OrderBy != want.order || q.ReverseOrder != want.rorder {
		return fmt.Sprintf("order by %q reverse=%v, denotes %q reverse=%v", q.OrderBy, q.ReverseOrder, want.order, want.rorder)
	}
	if q.Interval != time.Duration(want.interval)*time.Second {
		return fmt.Sprintf("interval %v, denotes %ds", q.Interval, want.interval)
	}
	if q.Limit != want.limit {
		return fmt.Sprintf("limit %d, denotes %d", q.Limit, want.limit)
	}
	if (q.Outfile == nil) != (want.outfile == nil) {
		return fmt.Sprintf("outfile %v, denotes %v", q.Outfile, want.outfile)
	}
	if q.Outfile != nil && (q.Outfile.FilePath != want.outfile.Path || q.Outfile.AppendMode != want.outfile.Append) {
		return fmt.Sprintf("outfile %v, denotes %v", q.Outfile, *want.outfile)
	}
	if q.LogFormat != want.logformat {
		return fmt.Sprintf("logformat %q, denotes %q", q.LogFormat, want.logformat)
	}
	return ""
}

func c11Parse(raw string) (q *Query, err error, pan string) {
	defer func() {
		if r := recover(); r != nil {
			pan = fmt.Sprint(r)
		}
	}()
	q, err = NewQuery(raw)
	return
}

func TestC11Replay(t *testing.T) {
	var cases []c11Case
	vReadJSON(t, "VERIF_CASES", &cases)
	rng := rand.New(rand.NewSource(vSeed()))
	var bads []c11Bad
	evals := 0
	nstyles := 4
	fmt.Sscanf(vGetenv("VERIF_STYLES"), "%d", &nstyles)
	for _, c := range cases {
		if len(c.Clauses) == 0 {
			continue
		}
		for v := 0; v < nstyles; v++ {
			style := rng.Intn(84)
			if v == 0 {
				style = 0
			}
			raw := c11Render(c, rng, style)
			q, err, pan := c11Parse(raw)
			evals++
			problem := ""
			switch {
			case pan != "":
				problem = "panic: " + pan
			case c.Valid && err != nil:
				problem = "valid query rejected: " + err.Error()
			case c.Valid && q == nil:
				problem = "valid query parsed to nil"
			case !c.Valid && err == nil:
				problem = "malformed query accepted"
			case c.Valid:
				problem = c11Compare(c, q, raw)
			}
			if problem != "" && len(bads) < 400 {
				tags := []string{}
				if c.EmptyStr {
					tags = append(tags, "emptystr")
				}
				if c.LoneBq {
					tags = append(tags, "lonebq")
				}
				bads = append(bads, c11Bad{c.IDs, raw, c.Valid, problem, tags})
			}
		}
	}
	// a few fixed malformed strings outside the clause generator
	for _, raw := range []string{"frobnicate x", "   ", "select", "from stats", "select count($line) from", "\"select\"",
		"group by $a", "select count($line) order by", "`", "select ` from x"} {
		q, err, pan := c11Parse(raw)
		evals++
		if pan != "" {
			bads = append(bads, c11Bad{[]string{"fixed"}, raw, false, "panic: " + pan, []string{"lonebq"}})
		} else if err == nil && q != nil {
			bads = append(bads, c11Bad{[]string{"fixed"}, raw, false, "malformed query accepted", nil})
		}
	}
	vWriteJSON(t, "VERIF_OUT", map[string]interface{}{"evaluations": evals, "bad": bads})
}
