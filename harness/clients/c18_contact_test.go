package clients

// C18, end to end: which addresses does a real (retrying) client contact for a given server list?
// Every listener drops the connection at once, so the tail client reconnects every 2 s.

import (
	"context"
	"fmt"
	"net"
	"os"
	"strings"
	"sync"
	"testing"
	"time"

	"github.com/mimecast/dtail/internal/config"

	gossh "golang.org/x/crypto/ssh"
)

type c18Listener struct {
	port int
	mu   sync.Mutex
	hits []time.Duration
	l    net.Listener
}

func c18Listen(t *testing.T, t0 time.Time) *c18Listener {
	l, err := net.Listen("tcp", "127.0.0.1:0")
	if err != nil {
		t.Fatal(err)
	}
	cl := &c18Listener{port: l.Addr().(*net.TCPAddr).Port, l: l}
	go func() {
		for {
			conn, err := l.Accept()
			if err != nil {
				return
			}
			cl.mu.Lock()
			cl.hits = append(cl.hits, time.Since(t0))
			cl.mu.Unlock()
			conn.Close()
		}
	}()
	return cl
}

func TestC18Contact(t *testing.T) {
	t0 := time.Now()
	n := 4
	ls := []*c18Listener{}
	for i := 0; i < n+2; i++ {
		ls = append(ls, c18Listen(t, t0))
	}
	def, uninvited := ls[n], ls[n+1]
	os.Setenv("DTAIL_HOSTNAME_OVERRIDE", "vhost")
	// list: P1, P2, P1 again (duplicate), localhost:P3, P4, and one entry without port (goes to the default port)
	entries := []string{
		fmt.Sprintf("127.0.0.1:%d", ls[0].port), fmt.Sprintf("127.0.0.1:%d", ls[1].port),
		fmt.Sprintf("127.0.0.1:%d", ls[0].port), fmt.Sprintf("localhost:%d", ls[2].port),
		fmt.Sprintf("127.0.0.1:%d", ls[3].port), "127.0.0.1",
	}
	args := config.Args{ConfigFile: "none", Logger: "none", LogLevel: "error", SSHPort: def.port,
		ServersStr: strings.Join(entries, ","), What: "/var/log/none.log", RegexStr: ".", UserName: "c18",
		Quiet: true, NoColor: true, SSHAuthMethods: []gossh.AuthMethod{gossh.Password("x")}}
	vInitArgs(&args)
	client, err := NewTailClient(args)
	if err != nil {
		t.Fatal(err)
	}
	ctx, cancel := context.WithCancel(context.Background())
	done := make(chan struct{})
	go func() { defer close(done); client.Start(ctx, make(chan string)) }()
	time.Sleep(1200 * time.Millisecond)
	first := map[int]int{}
	for _, l := range ls {
		l.mu.Lock()
		first[l.port] = len(l.hits)
		l.mu.Unlock()
	}
	// the client retries a dropped connection after 2 s: wait until every listed address was contacted twice (at least as
	// long as two retry intervals, at most 25 s on a loaded machine)
	enough := func() bool {
		for _, l := range append(append([]*c18Listener{}, ls[:n]...), def) {
			l.mu.Lock()
			k := len(l.hits)
			l.mu.Unlock()
			if k < 2 {
				return false
			}
		}
		return true
	}
	time.Sleep(3600 * time.Millisecond)
	for dl := time.Now().Add(21 * time.Second); !enough() && time.Now().Before(dl); {
		time.Sleep(100 * time.Millisecond)
	}
	cancel()
	select {
	case <-done:
	case <-time.After(8 * time.Second):
	}
	res := map[string]interface{}{}
	wanted := []map[string]int{}
	for i := 0; i < n; i++ {
		ls[i].mu.Lock()
		wanted = append(wanted, map[string]int{"first_round": first[ls[i].port], "total": len(ls[i].hits)})
		ls[i].mu.Unlock()
	}
	res["wanted"] = wanted
	def.mu.Lock()
	res["default_port_entry"] = map[string]int{"first_round": first[def.port], "total": len(def.hits)}
	def.mu.Unlock()
	uninvited.mu.Lock()
	res["uninvited"] = len(uninvited.hits)
	uninvited.mu.Unlock()
	res["connections"] = len(client.connections)
	names := []string{}
	for _, c := range client.connections {
		names = append(names, c.Server())
	}
	res["servers_after"] = names
	res["entries"] = entries
	vWriteJSON(t, "VERIF_OUT", res)
}
