package clients

// C12 harness: for every regex string enumerated by TLC (and random longer ones) a real serverless GrepClient
// session is run end to end - client option/regex serialisation, base64 envelope, server-side splitting and
// deserialisation, the real reader - over a probe file; stdout is captured.  A record holds the match vector of
// the user's pattern compiled directly with regexp (what the user asked for) and the line numbers that came back.

import (
	"bytes"
	"context"
	"fmt"
	"io"
	"math/rand"
	"os"
	"path/filepath"
	"regexp"
	"strings"
	"sync"
	"testing"
	"time"

	"github.com/mimecast/dtail/internal/config"
	"github.com/mimecast/dtail/internal/lcontext"
	"github.com/mimecast/dtail/internal/omode"
)

type c12Case struct {
	Regex []string `json:"regex"` // characters
}

var c12LineRe = regexp.MustCompile(`L(\d+)_`)

var c12Chars = map[string]string{"e9": "é"}

func c12Str(chars []string) string {
	var sb strings.Builder
	for _, c := range chars {
		if v, ok := c12Chars[c]; ok {
			sb.WriteString(v)
		} else {
			sb.WriteString(c)
		}
	}
	return sb.String()
}

// capture runs f with os.Stdout redirected into a buffer.
func c12Capture(f func()) string {
	old := os.Stdout
	r, w, _ := os.Pipe()
	os.Stdout = w
	var buf bytes.Buffer
	var wg sync.WaitGroup
	wg.Add(1)
	go func() { defer wg.Done(); io.Copy(&buf, r) }()
	f()
	os.Stdout = old
	w.Close()
	wg.Wait()
	r.Close()
	return buf.String()
}

func c12Probe(dir string) (string, []string) {
	alpha := []string{"a", " ", ":", ";", ",", "%", "=", "|", "é", ".", "*"}
	var contents []string
	contents = append(contents, "")
	for _, x := range alpha {
		contents = append(contents, x)
	}
	for _, x := range alpha {
		for _, y := range alpha {
			contents = append(contents, x+y)
		}
	}
	contents = append(contents, "a  a", " a ", "a:=%;,|a", "ééé", "aaa", "a a a", "=a=", "a\ta")
	var sb strings.Builder
	lines := make([]string, len(contents))
	for i, c := range contents {
		lines[i] = fmt.Sprintf("L%03d_%s", i+1, c)
		sb.WriteString(lines[i])
		sb.WriteString("\n")
	}
	p := filepath.Join(dir, "probe.log")
	os.WriteFile(p, []byte(sb.String()), 0644)
	return p, lines
}

type c12Rec struct {
	ID     int    `json:"id"`
	Regex  string `json:"regex"`
	File   []int  `json:"file"` // match vector of the user's pattern (regexp directly)
	Kind   string `json:"kind"`
	B      int    `json:"b"`
	A      int    `json:"a"`
	M      int    `json:"m"`
	Out    []int  `json:"out"`
	Plain  bool   `json:"plain"`
	Quiet  bool   `json:"quiet"`
	ModeOK bool   `json:"modeok"` // output format agrees with the plain option
	Stray  int    `json:"stray"`
	Status int    `json:"status"`
	Note   string `json:"note"`
}

func c12Run(id int, pattern string, inv bool, ltx lcontext.LContext, plain, quiet bool, probe string, lines []string) c12Rec {
	rec := c12Rec{ID: id, Regex: pattern, B: ltx.BeforeContext, A: ltx.AfterContext, M: ltx.MaxCount, Plain: plain, Quiet: quiet}
	rec.Kind = "default"
	if inv {
		rec.Kind = "invert"
	}
	if pattern == "" || pattern == "." || pattern == ".*" {
		rec.Kind = "noop"
	}
	re := regexp.MustCompile(pattern)
	for _, l := range lines {
		if re.MatchString(l) {
			rec.File = append(rec.File, 1)
		} else {
			rec.File = append(rec.File, 0)
		}
	}
	args := config.Args{ConfigFile: "none", Serverless: true, What: probe, RegexStr: pattern, RegexInvert: inv,
		LContext: ltx, Quiet: quiet || plain, Plain: plain, NoColor: true, UserName: "vuser", Mode: omode.GrepClient,
		ConnectionsPerCPU: 10}
	out := c12Capture(func() {
		defer func() {
			if r := recover(); r != nil {
				rec.Note = fmt.Sprintf("panic: %v", r)
			}
		}()
		var client *GrepClient
		var err error
		if pattern == "" {
			// dgrep refuses the empty pattern; it is reachable through the client API only
			args.Mode = omode.GrepClient
			client = &GrepClient{baseClient: baseClient{Args: args, throttleCh: make(chan struct{}, 16)}}
			client.init()
			client.makeConnections(client)
		} else if client, err = NewGrepClient(args); err != nil {
			rec.Note = err.Error()
			return
		}
		ctx, cancel := context.WithTimeout(context.Background(), 30*time.Second)
		rec.Status = client.Start(ctx, make(chan string))
		cancel()
	})
	rec.ModeOK = true
	rec.Out = []int{}
	for _, l := range strings.Split(out, "\n") {
		if l == "" {
			continue
		}
		m := c12LineRe.FindStringSubmatch(l)
		if m == nil {
			rec.Stray++
			continue
		}
		var n int
		fmt.Sscanf(m[1], "%d", &n)
		rec.Out = append(rec.Out, n)
		isRemote := strings.HasPrefix(l, "REMOTE|")
		if plain == isRemote {
			rec.ModeOK = false
		}
		if plain && (n < 1 || n > len(lines) || l != lines[n-1]) {
			rec.ModeOK = false
		}
		if !plain && isRemote {
			f := strings.SplitN(l, "|", 6)
			if len(f) != 6 || f[5] != lines[n-1] || strings.TrimSpace(f[3]) != fmt.Sprint(n) {
				rec.ModeOK = false
			}
		}
	}
	return rec
}

func TestC12Run(t *testing.T) {
	vInit("stdout")
	var cases []c12Case
	vReadJSON(t, "VERIF_CASES", &cases)
	rng := rand.New(rand.NewSource(vSeed()))
	dir, _ := os.MkdirTemp("", "c12-")
	defer os.RemoveAll(dir)
	probe, lines := c12Probe(dir)
	patterns := []string{}
	for _, c := range cases {
		patterns = append(patterns, c12Str(c.Regex))
	}
	// longer random patterns from valid RE2 fragments joined with the special characters
	frags := []string{"a", "a+", "[a=]", "(a|:)", "é", "a{1,2}", "\\.", "[ ;]", ".", "a*", "\\|", "%", "=", ",", ";", ":", " ", "  ", "\t", "^L", "a$", "=$", "(?i)A"}
	extra := 40
	fmt.Sscanf(os.Getenv("VERIF_N"), "%d", &extra)
	for i := 0; i < extra; i++ {
		n := 2 + rng.Intn(4)
		var sb strings.Builder
		for j := 0; j < n; j++ {
			sb.WriteString(frags[rng.Intn(len(frags))])
		}
		patterns = append(patterns, sb.String())
	}
	// patterns whose only special characters are backslash escapes
	patterns = append(patterns, `\d`, `\d\d`, `\s`, `a\sa`, `\w\w\w`, `\Aa`, `\bL`, `a\b`, `\S\s\S`, `\x61`, `\.`, `\\`)
	// long patterns (thousands of bytes: generated alternations, as scripts produce them); the alternative that decides
	// stands at the very end, so a pattern cut short on its way selects differently
	for _, n := range []int{120, 450, 900} {
		var sb strings.Builder
		for k := 0; k < n; k++ {
			fmt.Fprintf(&sb, "id%05dz|", k)
		}
		patterns = append(patterns, sb.String()+"a", sb.String()+"(:|=)$")
	}
	var recs []c12Rec
	skipped := 0
	id := 0
	vals := []int{0, 0, 1, 2, 10, 123}
	for _, p := range patterns {
		if _, err := regexp.Compile(p); err != nil {
			skipped++
			continue
		}
		for _, inv := range []bool{false, true} {
			id++
			ltx := lcontext.LContext{}
			if rng.Intn(3) == 0 {
				ltx = lcontext.LContext{BeforeContext: vals[rng.Intn(6)], AfterContext: vals[rng.Intn(6)], MaxCount: vals[rng.Intn(6)]}
			}
			recs = append(recs, c12Run(id, p, inv, ltx, rng.Intn(2) == 0, rng.Intn(2) == 0, probe, lines))
		}
	}
	vWriteJSON(t, "VERIF_OUT", map[string]interface{}{"records": recs, "skipped_invalid": skipped, "lines": len(lines)})
}

// A dmap session sends "map <query>" (no options) first and the read command with the options second: the
// output-mode options of the session must still be the ones the client encoded (serverless => no SERVER messages).
func TestC12Mapr(t *testing.T) {
	vInit("stdout")
	config.Server.MaxLineLength = 128
	defer func() { config.Server.MaxLineLength = 1024 * 1024 }()
	dir, _ := os.MkdirTemp("", "c12m-")
	defer os.RemoveAll(dir)
	rng := rand.New(rand.NewSource(vSeed()))
	type res struct {
		Lines    int    `json:"lines"`
		Expected int    `json:"expected_count"`
		Output   string `json:"output"`
		Server   int    `json:"server_messages"`
		Count    string `json:"count"`
		Note     string `json:"note"`
	}
	var out []res
	for round := 0; round < 4; round++ {
		n := 5 + rng.Intn(40)
		var sb strings.Builder
		expected := 0
		query := "select count($line) group by $hostname"
		if round == 3 {
			// "from STATS": the table is selected by the regex the mapreduce client sends with its cat command; lines of
			// another table in the same file must not be counted
			query = "select count($line) from STATS group by $hostname"
			for i := 0; i < n; i++ {
				table := []string{"STATS", "OTHER", "STATS", "STATSX"}[i%4]
				fmt.Fprintf(&sb, "INFO|20211002-071209|1|c12.go:1|8|14|7|0.21|471h0m21s|MAPREDUCE:%s|foo=%d\n", table, i)
				if table == "STATS" {
					expected++
				}
			}
			n = 0
		}
		for i := 0; i < n; i++ {
			l := 1 + rng.Intn(100)
			if i == n/2 {
				l = 129 + rng.Intn(300) // one over-long line: the server warns about it (a message serverless mode suppresses)
			}
			sb.WriteString(strings.Repeat("x", l))
			sb.WriteString("\n")
			expected += l/128 + 1
		}
		p := filepath.Join(dir, fmt.Sprintf("m%d.log", round))
		os.WriteFile(p, []byte(sb.String()), 0644)
		r := res{Lines: n, Expected: expected}
		args := config.Args{ConfigFile: "none", Serverless: true, What: p, QueryStr: query,
			Quiet: true, Plain: round%2 == 0, NoColor: true, UserName: "vuser", Mode: omode.MapClient, ConnectionsPerCPU: 10}
		r.Output = c12Capture(func() {
			defer func() {
				if x := recover(); x != nil {
					r.Note = fmt.Sprintf("panic: %v", x)
				}
			}()
			client, err := NewMaprClient(args, DefaultMode)
			if err != nil {
				r.Note = err.Error()
				return
			}
			ctx, cancel := context.WithTimeout(context.Background(), 30*time.Second)
			client.Start(ctx, make(chan string))
			cancel()
		})
		for _, l := range strings.Split(r.Output, "\n") {
			if strings.HasPrefix(l, "SERVER|") {
				r.Server++
			}
			f := strings.TrimSpace(l)
			if f != "" && strings.Trim(f, "0123456789") == "" {
				r.Count = f
			}
		}
		out = append(out, r)
	}
	vWriteJSON(t, "VERIF_OUT", out)
}

// Several files in one dgrep request: the pattern and the options (invert, before, after, max) apply to every file - each
// file's selection equals the selection of a request for that file alone (which TestC12Run judges against the Ref).
func TestC12TwoFiles(t *testing.T) {
	vInit("stdout")
	dir, _ := os.MkdirTemp("", "c12t-")
	defer os.RemoveAll(dir)
	probe, lines := c12Probe(dir)
	data, _ := os.ReadFile(probe)
	second := filepath.Join(dir, "second.log")
	third := filepath.Join(dir, "third.log")
	os.WriteFile(second, data, 0644)
	os.WriteFile(third, data, 0644)
	type rec struct {
		Regex  string         `json:"regex"`
		Invert bool           `json:"invert"`
		B      int            `json:"b"`
		A      int            `json:"a"`
		M      int            `json:"m"`
		Single []int          `json:"single"`
		Multi  map[string][]int `json:"multi"`
		Note   string         `json:"note"`
	}
	var recs []rec
	run := func(what, pattern string, inv bool, ltx lcontext.LContext) (map[string][]int, string) {
		note := ""
		args := config.Args{ConfigFile: "none", Serverless: true, What: what, RegexStr: pattern, RegexInvert: inv, LContext: ltx,
			Quiet: true, NoColor: true, UserName: "vuser", Mode: omode.GrepClient, ConnectionsPerCPU: 10}
		out := c12Capture(func() {
			defer func() {
				if r := recover(); r != nil {
					note = fmt.Sprintf("panic: %v", r)
				}
			}()
			client, err := NewGrepClient(args)
			if err != nil {
				note = err.Error()
				return
			}
			ctx, cancel := context.WithTimeout(context.Background(), 30*time.Second)
			client.Start(ctx, make(chan string))
			cancel()
		})
		sel := map[string][]int{}
		for _, l := range strings.Split(out, "\n") {
			f := strings.SplitN(l, "|", 6)
			if len(f) != 6 || f[0] != "REMOTE" {
				continue
			}
			if m := c12LineRe.FindStringSubmatch(f[5]); m != nil {
				var n int
				fmt.Sscanf(m[1], "%d", &n)
				sel[f[4]] = append(sel[f[4]], n)
			}
		}
		return sel, note
	}
	_ = lines
	for _, c := range []struct {
		p   string
		inv bool
		ltx lcontext.LContext
	}{
		{"a", false, lcontext.LContext{MaxCount: 2}}, {"=", false, lcontext.LContext{AfterContext: 1}}, {";", false, lcontext.LContext{BeforeContext: 2}},
		{"é", true, lcontext.LContext{MaxCount: 3, AfterContext: 1, BeforeContext: 1}}, {"a a", false, lcontext.LContext{}}, {":", true, lcontext.LContext{MaxCount: 1}},
	} {
		single, n1 := run(probe, c.p, c.inv, c.ltx)
		multi, n2 := run(probe+","+second+","+third, c.p, c.inv, c.ltx)
		recs = append(recs, rec{c.p, c.inv, c.ltx.BeforeContext, c.ltx.AfterContext, c.ltx.MaxCount, single["probe.log"], multi, n1 + n2})
	}
	vWriteJSON(t, "VERIF_OUT", recs)
}
