package clients

// C06, the last step on the client: MaprClient.Start() reports the final result after the last server has finished - also
// when the periodic reporter is in the middle of an interim report at that moment (the two share the global result and,
// with an outfile, <outfile>.tmp).  A real MaprClient gets 300000 groups through the same Merge the per-server handlers
// use, its periodic reporter runs (interval 1 s); as soon as the interim report is seen writing, the final report is made
// as Start() does.  Afterwards the outfile must hold every group.

import (
	"context"
	"fmt"
	"os"
	"path/filepath"
	"strings"
	"testing"
	"time"

	"github.com/mimecast/dtail/internal/config"
	"github.com/mimecast/dtail/internal/mapr"
	"github.com/mimecast/dtail/internal/omode"
)

func TestC06FinalReport(t *testing.T) {
	dir, _ := os.MkdirTemp("", "c06f-")
	defer os.RemoveAll(dir)
	outfile := filepath.Join(dir, "final.csv")
	ngroups := 300000
	fmt.Sscanf(os.Getenv("VERIF_N"), "%d", &ngroups)
	args := config.Args{ConfigFile: "none", Logger: "none", LogLevel: "error", NoColor: true, Serverless: true, Mode: omode.MapClient,
		What: filepath.Join(dir, "none.log"), UserName: "c06",
		QueryStr: "select count($line),$g group by $g interval 1 outfile \"" + outfile + "\""}
	vInitArgs(&args)
	c, err := NewMaprClient(args, CumulativeMode)
	if err != nil {
		t.Fatal(err)
	}
	local := mapr.NewGroupSet()
	for i := 0; i < ngroups; i++ {
		set := local.GetSet(fmt.Sprintf("g%07d", i))
		set.FValues["count($line)"] = 1
		set.SValues["$g"] = fmt.Sprintf("g%07d", i)
		set.Samples = 1
	}
	if err := c.globalGroup.Merge(c.query, local); err != nil {
		t.Fatal(err)
	}
	ctx, cancel := context.WithCancel(context.Background())
	defer cancel()
	go c.periodicReportResults(ctx)
	// the first interim report starts 1.5 s from now; it is "in progress" once <outfile>.tmp exists
	seen := false
	for dl := time.Now().Add(20 * time.Second); time.Now().Before(dl); time.Sleep(2 * time.Millisecond) {
		if _, err := os.Stat(outfile + ".tmp"); err == nil {
			seen = true
			break
		}
	}
	done := make(chan struct{})
	go func() { c.reportResults(true); close(done) }() // what Start() does after the last server has finished
	returned := true
	select {
	case <-done:
	case <-time.After(120 * time.Second):
		returned = false
	}
	cancel()
	time.Sleep(1500 * time.Millisecond) // an interim report still running may finish
	rows := -1
	if data, err := os.ReadFile(outfile); err == nil {
		rows = strings.Count(string(data), "\n") - 1
	}
	vWriteJSON(t, "VERIF_OUT", map[string]interface{}{"groups": ngroups, "rows_in_outfile": rows, "interim_seen_in_progress": seen, "final_report_returned": returned})
}
