package clients

// C18, connection throttle: the client establishes at most ConnectionsPerCPU x NumCPU connections at the same time, but
// every listed server is contacted.  NumCPU + 3 minimal SSH servers (any password, a session channel, a shell request,
// then silence: a long-lived follow session) and a tail client with ConnectionsPerCPU = 1.

import (
	"context"
	"crypto/ed25519"
	"crypto/rand"
	"fmt"
	"net"
	"os"
	"runtime"
	"strings"
	"sync"
	"testing"
	"time"

	"github.com/mimecast/dtail/internal/config"

	gossh "golang.org/x/crypto/ssh"
)

type c18Silent struct {
	id       int
	failing  bool // drops every connection in the handshake
	port     int
	mu       sync.Mutex
	sessions int
	active   int // connections with a session that are still open
	conns    []*gossh.ServerConn
}

// drop closes the established connections of the server (logged first: the client can only notice afterwards)
func (s *c18Silent) drop() {
	s.mu.Lock()
	conns := s.conns
	s.conns = nil
	s.mu.Unlock()
	c18Emit("drop", s.id)
	for _, c := range conns {
		c.Close()
	}
}

// one event log for all servers of the harness, ordered by one lock (spec/ThrottleTrace.tla)
type c18Event struct {
	Ev string `json:"ev"`
	S  int    `json:"s"`
}

var (
	c18LogMu  sync.Mutex
	c18Log    []c18Event
	c18LogOff bool
)

func c18Emit(ev string, s int) {
	c18LogMu.Lock()
	if !c18LogOff {
		c18Log = append(c18Log, c18Event{ev, s})
	}
	c18LogMu.Unlock()
}

func c18SilentServer(t *testing.T, signer gossh.Signer, id int, failing bool) *c18Silent {
	l, err := net.Listen("tcp", "127.0.0.1:0")
	if err != nil {
		t.Fatal(err)
	}
	s := &c18Silent{id: id, failing: failing, port: l.Addr().(*net.TCPAddr).Port}
	cfg := &gossh.ServerConfig{PasswordCallback: func(gossh.ConnMetadata, []byte) (*gossh.Permissions, error) {
		time.Sleep(60 * time.Millisecond) // connections stay "being established" long enough to overlap
		return nil, nil
	}}
	cfg.AddHostKey(signer)
	go func() {
		for {
			conn, err := l.Accept()
			if err != nil {
				return
			}
			c18Emit("accept", s.id)
			if s.failing {
				go func() {
					time.Sleep(30 * time.Millisecond)
					c18Emit("fail", s.id)
					conn.Close()
				}()
				continue
			}
			go func() {
				sc, chans, reqs, err := gossh.NewServerConn(conn, cfg)
				if err != nil {
					return
				}
				defer sc.Close()
				s.mu.Lock()
				s.conns = append(s.conns, sc)
				s.mu.Unlock()
				hadSession := false
				defer func() {
					if hadSession {
						s.mu.Lock()
						s.active--
						s.mu.Unlock()
					}
				}()
				go gossh.DiscardRequests(reqs)
				for nc := range chans {
					if nc.ChannelType() != "session" {
						nc.Reject(gossh.UnknownChannelType, "no")
						continue
					}
					ch, rq, err := nc.Accept()
					if err != nil {
						continue
					}
					s.mu.Lock()
					s.sessions++
					if !hadSession {
						s.active++
					}
					s.mu.Unlock()
					hadSession = true
					go func() {
						for r := range rq {
							if r.Type == "shell" {
								c18Emit("up", s.id)
							}
							if r.WantReply {
								r.Reply(true, nil)
							}
						}
					}()
					go func() { // swallow what the client sends, say nothing
						buf := make([]byte, 4096)
						for {
							if _, err := ch.Read(buf); err != nil {
								return
							}
						}
					}()
				}
			}()
		}
	}()
	return s
}

func TestC18Throttle(t *testing.T) {
	_, priv, _ := ed25519.GenerateKey(rand.Reader)
	signer, _ := gossh.NewSignerFromKey(priv)
	// more failing entries than throttle slots come first in the list, then more answering servers than slots
	nfail := runtime.NumCPU() + 2
	n := runtime.NumCPU() + 3
	var servers []*c18Silent
	var entries []string
	for i := 0; i < nfail; i++ {
		s := c18SilentServer(t, signer, i+1, true)
		entries = append(entries, fmt.Sprintf("127.0.0.1:%d", s.port))
	}
	for i := 0; i < n; i++ {
		s := c18SilentServer(t, signer, nfail+i+1, false)
		servers = append(servers, s)
		entries = append(entries, fmt.Sprintf("127.0.0.1:%d", s.port))
	}
	os.Setenv("DTAIL_HOSTNAME_OVERRIDE", "vhost")
	args := config.Args{ConfigFile: "none", Logger: "none", LogLevel: "error", ConnectionsPerCPU: 1,
		ServersStr: strings.Join(entries, ","), What: "/var/log/none.log", RegexStr: ".", UserName: "c18",
		Quiet: true, NoColor: true, SSHAuthMethods: []gossh.AuthMethod{gossh.Password("x")}}
	vInitArgs(&args)
	client, err := NewTailClient(args)
	if err != nil {
		t.Fatal(err)
	}
	ctx, cancel := context.WithCancel(context.Background())
	done := make(chan struct{})
	go func() { defer close(done); client.Start(ctx, make(chan string)) }()
	contacted := func() int {
		k := 0
		for _, s := range servers {
			s.mu.Lock()
			if s.sessions > 0 {
				k++
			}
			s.mu.Unlock()
		}
		return k
	}
	for dl := time.Now().Add(25 * time.Second); contacted() < n && time.Now().Before(dl); {
		time.Sleep(50 * time.Millisecond)
	}
	got := contacted()
	dropped, redialled, held := 0, 0, 0
	if got == n {
		time.Sleep(2500 * time.Millisecond) // one more round of dials to the failing entries (retry mode)
		// three servers end their sessions: the retrying client connects to each of them again (and to nobody else twice)
		victims := []*c18Silent{servers[0], servers[n/2], servers[n-1]}
		before := map[*c18Silent]int{}
		for _, v := range victims {
			v.mu.Lock()
			before[v] = v.sessions
			v.mu.Unlock()
			v.drop()
			dropped++
		}
		again := func() int {
			k := 0
			for _, v := range victims {
				v.mu.Lock()
				if v.sessions > before[v] {
					k++
				}
				v.mu.Unlock()
			}
			return k
		}
		for dl := time.Now().Add(10 * time.Second); again() < dropped && time.Now().Before(dl); {
			time.Sleep(50 * time.Millisecond)
		}
		redialled = again()
		// ... and the new sessions are sessions: still up 1.6 s later (a follow goes on until the user ends it)
		time.Sleep(1600 * time.Millisecond)
		for _, v := range victims {
			v.mu.Lock()
			if v.sessions > before[v] && v.active > 0 {
				held++
			}
			v.mu.Unlock()
		}
	}
	c18LogMu.Lock()
	c18LogOff = true
	trace := append([]c18Event{}, c18Log...)
	c18LogMu.Unlock()
	cancel()
	select {
	case <-done:
	case <-time.After(8 * time.Second):
	}
	vWriteJSON(t, "VERIF_OUT", map[string]interface{}{"servers": n, "failing": nfail, "contacted": got,
		"capacity": runtime.NumCPU(), "dropped": dropped, "redialled": redialled, "held": held, "trace": trace})
}
