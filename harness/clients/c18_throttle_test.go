package clients

// C18, connection throttle: the client establishes at most ConnectionsPerCPU x NumCPU connections at the same time, but
// every listed server is contacted.  NumCPU + 3 minimal SSH servers (any password, a session channel, a shell request,
// then silence: a long-lived follow session) and a tail client with ConnectionsPerCPU = 1.

import (
	"context"
	"crypto/ed25519"
	"crypto/rand"
	"fmt"
	"net"
	"os"
	"runtime"
	"strings"
	"sync"
	"testing"
	"time"

	"github.com/mimecast/dtail/internal/config"

	gossh "golang.org/x/crypto/ssh"
)

type c18Silent struct {
	port     int
	mu       sync.Mutex
	sessions int
}

func c18SilentServer(t *testing.T, signer gossh.Signer) *c18Silent {
	l, err := net.Listen("tcp", "127.0.0.1:0")
	if err != nil {
		t.Fatal(err)
	}
	s := &c18Silent{port: l.Addr().(*net.TCPAddr).Port}
	cfg := &gossh.ServerConfig{PasswordCallback: func(gossh.ConnMetadata, []byte) (*gossh.Permissions, error) { return nil, nil }}
	cfg.AddHostKey(signer)
	go func() {
		for {
			conn, err := l.Accept()
			if err != nil {
				return
			}
			go func() {
				sc, chans, reqs, err := gossh.NewServerConn(conn, cfg)
				if err != nil {
					return
				}
				defer sc.Close()
				go gossh.DiscardRequests(reqs)
				for nc := range chans {
					if nc.ChannelType() != "session" {
						nc.Reject(gossh.UnknownChannelType, "no")
						continue
					}
					ch, rq, err := nc.Accept()
					if err != nil {
						continue
					}
					s.mu.Lock()
					s.sessions++
					s.mu.Unlock()
					go func() {
						for r := range rq {
							if r.WantReply {
								r.Reply(true, nil)
							}
						}
					}()
					go func() { // swallow what the client sends, say nothing
						buf := make([]byte, 4096)
						for {
							if _, err := ch.Read(buf); err != nil {
								return
							}
						}
					}()
				}
			}()
		}
	}()
	return s
}

func TestC18Throttle(t *testing.T) {
	_, priv, _ := ed25519.GenerateKey(rand.Reader)
	signer, _ := gossh.NewSignerFromKey(priv)
	n := runtime.NumCPU() + 3
	var servers []*c18Silent
	var entries []string
	for i := 0; i < n; i++ {
		s := c18SilentServer(t, signer)
		servers = append(servers, s)
		entries = append(entries, fmt.Sprintf("127.0.0.1:%d", s.port))
	}
	os.Setenv("DTAIL_HOSTNAME_OVERRIDE", "vhost")
	args := config.Args{ConfigFile: "none", Logger: "none", LogLevel: "error", ConnectionsPerCPU: 1,
		ServersStr: strings.Join(entries, ","), What: "/var/log/none.log", RegexStr: ".", UserName: "c18",
		Quiet: true, NoColor: true, SSHAuthMethods: []gossh.AuthMethod{gossh.Password("x")}}
	vInitArgs(&args)
	client, err := NewTailClient(args)
	if err != nil {
		t.Fatal(err)
	}
	ctx, cancel := context.WithCancel(context.Background())
	done := make(chan struct{})
	go func() { defer close(done); client.Start(ctx, make(chan string)) }()
	contacted := func() int {
		k := 0
		for _, s := range servers {
			s.mu.Lock()
			if s.sessions > 0 {
				k++
			}
			s.mu.Unlock()
		}
		return k
	}
	for dl := time.Now().Add(25 * time.Second); contacted() < n && time.Now().Before(dl); {
		time.Sleep(50 * time.Millisecond)
	}
	got := contacted()
	cancel()
	select {
	case <-done:
	case <-time.After(8 * time.Second):
	}
	vWriteJSON(t, "VERIF_OUT", map[string]interface{}{"servers": n, "contacted": got, "capacity": runtime.NumCPU()})
}
