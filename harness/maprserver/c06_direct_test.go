package server

// C06 harness, server half, direct mode: the real server.Aggregate is started and the harness plays the file readers
// with the registration protocol of readCommand.read() (make a lines channel, send it into NextLinesCh, write the lines,
// close it).  Every reader step (register / produce a line / close) is taken in the order of a TLC behaviour of
// spec/MaprSched.tla; the aggregator's decision at a closed channel and the re-queue goroutine's send are blocking gates
// released in that order too.  So also "the current channel is open but momentarily empty" - which a reader of a regular
// file produces only by chance - is forced.  Outcome: the count the aggregator serialises against the lines produced.

import (
	"bytes"
	"context"
	"fmt"
	"strconv"
	"strings"
	"sync"
	"sync/atomic"
	"testing"
	"time"

	"github.com/mimecast/dtail/internal/io/line"
)

type c06dStep struct {
	A string `json:"a"`
	F int    `json:"f"`
}

type c06dCase struct {
	ID     int        `json:"id"`
	NFiles int        `json:"nfiles"`
	L      int        `json:"l"`
	ChCap  int        `json:"chcap"`
	Sched  []c06dStep `json:"sched"`
	Big    bool       `json:"big"` // more readers than NextLinesCh holds, first channel kept open and empty
}

type c06dResult struct {
	ID       int    `json:"id"`
	Total    int    `json:"total"`
	Counted  int    `json:"counted"`
	Ended    bool   `json:"ended"`
	Followed int    `json:"followed"`
	Diverged string `json:"diverged"`
}

type c06dGate struct {
	kind string
	ch   chan struct{}
}

type c06dWorld struct {
	mu     sync.Mutex
	parked []*c06dGate
	free   bool
}

var c06dWorlds sync.Map

func c06dInstall() {
	vhookInstall(func(point string, kv ...interface{}) {
		if len(kv) == 0 || (point != "agg.closed" && point != "agg.requeue") {
			return
		}
		wv, ok := c06dWorlds.Load(kv[0])
		if !ok {
			return
		}
		w := wv.(*c06dWorld)
		w.mu.Lock()
		var g *c06dGate
		if !w.free {
			g = &c06dGate{strings.TrimPrefix(point, "agg."), make(chan struct{})}
			w.parked = append(w.parked, g)
		}
		w.mu.Unlock()
		if g != nil {
			<-g.ch
		}
	})
}

func (w *c06dWorld) release(kind string, wait time.Duration) bool {
	deadline := time.Now().Add(wait)
	for {
		w.mu.Lock()
		for i, g := range w.parked {
			if g.kind == kind {
				w.parked = append(w.parked[:i], w.parked[i+1:]...)
				w.mu.Unlock()
				close(g.ch)
				return true
			}
		}
		w.mu.Unlock()
		if time.Now().After(deadline) {
			return false
		}
		time.Sleep(100 * time.Microsecond)
	}
}

func (w *c06dWorld) freeAll() {
	w.mu.Lock()
	w.free = true
	for _, g := range w.parked {
		close(g.ch)
	}
	w.parked = nil
	w.mu.Unlock()
}

func c06dRun(c c06dCase) (res c06dResult) {
	res.ID = c.ID
	a, err := NewAggregate("select count($line) group by $hostname interval 3600")
	if err != nil {
		res.Diverged = err.Error()
		return
	}
	w := &c06dWorld{}
	c06dWorlds.Store(a, w)
	defer c06dWorlds.Delete(a)
	var closedFiles int32
	nfiles := int32(c.NFiles)
	// the session tells the aggregator whether readers are still at work (serverhandler.go does this with its command counter)
	a.MoreLinesChExpected = func() bool { return atomic.LoadInt32(&closedFiles) < nfiles }
	ctx, cancel := context.WithCancel(context.Background())
	defer cancel()
	out := make(chan string, 1000)
	done := make(chan struct{})
	go func() { a.Start(ctx, out); close(done) }()
	chs := make([]chan *line.Line, c.NFiles+1)
	produced := make([]int, c.NFiles+1)
	capacity := c.ChCap
	if capacity <= 0 {
		capacity = 100
	}
	for f := 1; f <= c.NFiles; f++ {
		chs[f] = make(chan *line.Line, capacity)
	}
	var regWg sync.WaitGroup
	registered := make([]bool, c.NFiles+1)
	register := func(f int) {
		registered[f] = true
		a.NextLinesCh <- chs[f] // a reader registers before it reads anything (capacity 100: never blocks for the few files here)
	}
	_ = &regWg
	produce := func(f int) bool {
		l := line.New(bytes.NewBufferString(fmt.Sprintf("file %d line %d\n", f, produced[f])), uint64(produced[f]+1), 100, "src")
		select {
		case chs[f] <- l:
			produced[f]++
			res.Total++
			return true
		case <-time.After(400 * time.Millisecond):
			return false
		}
	}
	if c.Big {
		// 120 readers like readCommand.read(): register (blocks while NextLinesCh, capacity 100, is full), then read, then
		// close.  Reader 1 registers first and stays silent for a while: the aggregator finds its channel open but empty.
		w.freeAll()
		var total int32
		var rw sync.WaitGroup
		reader := func(f int, delay time.Duration) {
			defer rw.Done()
			a.NextLinesCh <- chs[f]
			time.Sleep(delay)
			for i := 0; i < c.L; i++ {
				chs[f] <- line.New(bytes.NewBufferString(fmt.Sprintf("file %d line %d\n", f, i)), uint64(i+1), 100, "src")
				atomic.AddInt32(&total, 1)
			}
			close(chs[f])
			atomic.AddInt32(&closedFiles, 1)
		}
		rw.Add(1)
		go reader(1, 700*time.Millisecond)
		time.Sleep(5 * time.Millisecond)
		for f := 2; f <= c.NFiles; f++ {
			rw.Add(1)
			go reader(f, 0)
		}
		rw.Wait()
		res.Total = int(total)
	} else {
		for _, st := range c.Sched {
			ok := true
			switch st.A {
			case "register":
				register(st.F)
			case "produce":
				ok = produce(st.F)
			case "close":
				close(chs[st.F])
				atomic.AddInt32(&closedFiles, 1)
				chs[st.F] = nil
			case "closed":
				ok = w.release("closed", 300*time.Millisecond)
			case "requeue":
				if !w.release("requeue", 30*time.Millisecond) {
					continue // no swap happened in the real run
				}
			}
			if !ok {
				res.Diverged = fmt.Sprintf("step %d (%s %d) not possible in the real run", res.Followed, st.A, st.F)
				break
			}
			res.Followed++
		}
		w.freeAll()
		// epilogue: whatever the behaviour left undone
		for f := 1; f <= c.NFiles; f++ {
			if chs[f] != nil {
				if !registered[f] {
					register(f)
				}
				for produced[f] < c.L {
					if !produce(f) {
						break
					}
				}
				close(chs[f])
				atomic.AddInt32(&closedFiles, 1)
			}
		}
	}
	select {
	case <-done:
		res.Ended = true
	case <-time.After(15*time.Second + time.Duration(c.NFiles)*300*time.Millisecond):
	}
	cancel()
	for {
		select {
		case m := <-out:
			for _, part := range strings.Split(m, "∥") {
				if strings.HasPrefix(part, "count($line)≔") {
					v, _ := strconv.ParseFloat(strings.TrimPrefix(part, "count($line)≔"), 64)
					res.Counted += int(v)
				}
			}
			continue
		default:
		}
		break
	}
	return
}

func TestC06Direct(t *testing.T) {
	vInit("none")
	c06dInstall()
	var cases []c06dCase
	vReadJSON(t, "VERIF_CASES", &cases)
	results := make([]c06dResult, len(cases))
	var wg sync.WaitGroup
	sem := make(chan struct{}, 12)
	for i := range cases {
		wg.Add(1)
		sem <- struct{}{}
		go func(i int) {
			defer wg.Done()
			defer func() { <-sem }()
			results[i] = c06dRun(cases[i])
		}(i)
	}
	wg.Wait()
	vWriteJSON(t, "VERIF_OUT", results)
}
