package server

// C05 harness: every case enumerated by TLC (table of lines, partition into server-1 interval 1 / interval 2 / server 2,
// select list, where, merge pattern) drives the REAL pipeline: server.Aggregate.Start() fed through NextLinesCh with a
// Serialize() tick placed exactly between the parts (trace points agg.line / agg.skip / agg.serialized tell when a line
// was consumed), the real client.Aggregate per server, the real GlobalGroupSet (its lock is held through the
// merge.locked trace point when the model says the first merge is skipped), WriteResult to a CSV that is parsed and
// compared with the rows of the central evaluation computed by TLC.

import (
	"github.com/mimecast/dtail/internal/mapr/funcs"
	"bytes"
	"context"
	"fmt"
	"math"
	"math/rand"
	"os"
	"path/filepath"
	"sort"
	"strconv"
	"strings"
	"sync"
	"testing"
	"time"

	"github.com/mimecast/dtail/internal/io/line"
	"github.com/mimecast/dtail/internal/mapr"
	"github.com/mimecast/dtail/internal/mapr/client"
)

type c05Line struct {
	G string `json:"g"`
	K string `json:"k"`
	N int    `json:"n"`
}

type c05Row struct {
	Has bool   `json:"has"`
	Cnt int    `json:"cnt"`
	S   string `json:"s"`
	X   int    `json:"x"`
	N   int    `json:"n"`
}

type c05Case struct {
	ID         int               `json:"id"`
	Lines      []c05Line         `json:"lines"`
	Part       []int             `json:"part"`
	WithCount  bool              `json:"withCount"`
	Op         string            `json:"op"`
	Accumulate bool              `json:"accumulate"`
	Wh         bool              `json:"wh"`
	Central    map[string]c05Row `json:"central"`
	Impl       map[string]c05Row `json:"impl"`
	Format     string            `json:"format"`
	Ord        string            `json:"ord"`    // "", "order", "rorder"
	OrdCol     string            `json:"ordcol"` // "count" or "op": the select column the rows are ordered by
	Lim        int               `json:"lim"`    // -1: no limit clause
	SetCopy    bool              `json:"setcopy"` // "set $w = v" and OP($w) instead of OP(v): a line without v gets $w = the literal "v"
}

type c05Result struct {
	ID      int        `json:"id"`
	Query   string     `json:"query"`
	Rows    [][]string `json:"rows"`
	Table   [][]string `json:"table"` // the rows of the terminal table (GlobalGroupSet.Result), same query
	Problem string     `json:"problem"`
}

type c05Hooks struct {
	mu       sync.Mutex
	consumed map[*Aggregate]int
	serial   map[*Aggregate]int
	gate     map[*mapr.GlobalGroupSet]chan struct{} // a parked merge holds the lock until the channel is closed
	parked   map[*mapr.GlobalGroupSet]chan struct{}
}

var c05H = &c05Hooks{consumed: map[*Aggregate]int{}, serial: map[*Aggregate]int{}, gate: map[*mapr.GlobalGroupSet]chan struct{}{}, parked: map[*mapr.GlobalGroupSet]chan struct{}{}}

func c05Install() {
	vhookInstall(func(point string, kv ...interface{}) {
		switch point {
		case "agg.line", "agg.skip":
			a := kv[0].(*Aggregate)
			c05H.mu.Lock()
			c05H.consumed[a]++
			c05H.mu.Unlock()
		case "agg.serialized":
			a := kv[0].(*Aggregate)
			c05H.mu.Lock()
			c05H.serial[a]++
			c05H.mu.Unlock()
		case "merge.locked":
			g := kv[0].(*mapr.GlobalGroupSet)
			grp, _ := kv[1].(*mapr.GroupSet)
			c05H.mu.Lock()
			gate := c05H.gate[g]
			parked := c05H.parked[g]
			isHolder := grp == c05Holder
			c05H.mu.Unlock()
			if gate != nil && isHolder {
				close(parked)
				<-gate
			}
		}
	})
}

var c05ChanCap = 100 // capacity of a reader's lines channel (100 in readcommand.go)

var c05Holder = mapr.NewGroupSet() // the (empty) group set whose merge is parked to hold the lock

func c05Wait(cond func() bool) bool {
	deadline := time.Now().Add(10 * time.Second)
	for time.Now().Before(deadline) {
		c05H.mu.Lock()
		ok := cond()
		c05H.mu.Unlock()
		if ok {
			return true
		}
		time.Sleep(50 * time.Microsecond)
	}
	return false
}

func c05Render(l c05Line, format string, idx int) string {
	v := ""
	switch l.K {
	case "nan":
		v = "x"
	case "num":
		v = strconv.Itoa(l.N)
	}
	switch format {
	case "default":
		s := fmt.Sprintf("INFO|20211002-07120%d|1|c05.go:1|8|14|7|0.21|471h0m21s|MAPREDUCE:T|g=%s", idx%10, l.G)
		if l.K != "none" {
			s += "|v=" + v
		}
		return s
	case "csv":
		return l.G + "," + v
	default: // generickv
		s := "g=" + l.G
		if l.K != "none" {
			s += "|v=" + v
		}
		return s
	}
}

func c05Query(c c05Case, outfile string) string {
	sel := []string{}
	if c.WithCount {
		sel = append(sel, "g", "count($line)")
	}
	opcol := c.Op + "(v)"
	if c.SetCopy {
		opcol = c.Op + "($w)"
	}
	sel = append(sel, opcol)
	q := "select " + strings.Join(sel, ",")
	if c.Format == "default" {
		q += " from T"
	}
	if c.Wh {
		q += " where v >= 0"
	}
	if c.SetCopy {
		q += " set $w = v"
	}
	q += " group by g"
	if c.Ord != "" {
		col := opcol
		if c.OrdCol == "count" {
			col = "count($line)"
		}
		q += " " + c.Ord + " by " + col
	}
	if c.Lim >= 0 {
		q += fmt.Sprintf(" limit %d", c.Lim)
	}
	q += " logformat " + c.Format + " outfile \"" + outfile + "\""
	return q
}

// one server: feeds the parts in order with a Serialize tick between them; returns the messages per part
func c05Server(query string, parts [][]string, header string) (msgs [][]string, problem string) {
	a, err := NewAggregate(query)
	if err != nil {
		return nil, "NewAggregate: " + err.Error()
	}
	ctx, cancel := context.WithCancel(context.Background())
	defer cancel()
	out := make(chan string, 1000)
	done := make(chan struct{})
	go func() { a.Start(ctx, out); close(done) }()
	ch := make(chan *line.Line, c05ChanCap)
	a.NextLinesCh <- ch
	fed := 0
	feed := func(s string) {
		ch <- line.New(bytes.NewBufferString(s+"\n"), uint64(fed+1), 100, "src")
		fed++
	}
	if header != "" {
		feed(header)
	}
	drain := func() []string {
		var m []string
		for {
			select {
			case x := <-out:
				m = append(m, x)
			default:
				return m
			}
		}
	}
	for pi, p := range parts {
		for _, l := range p {
			feed(l)
		}
		want := fed
		if !c05Wait(func() bool { return c05H.consumed[a] >= want }) {
			return nil, "server did not consume the lines"
		}
		if pi < len(parts)-1 {
			before := 0
			c05H.mu.Lock()
			before = c05H.serial[a]
			c05H.mu.Unlock()
			a.Serialize(ctx) // what the interval timer calls
			if !c05Wait(func() bool { return c05H.serial[a] > before }) {
				return nil, "serialize tick did not complete"
			}
			msgs = append(msgs, drain())
		}
	}
	close(ch) // end of the file: the aggregator serializes a last time and ends
	select {
	case <-done:
	case <-time.After(10 * time.Second):
		return nil, "aggregator did not end"
	}
	msgs = append(msgs, drain())
	c05H.mu.Lock()
	delete(c05H.consumed, a)
	delete(c05H.serial, a)
	c05H.mu.Unlock()
	return msgs, ""
}

func c05Run(c c05Case, dir string) (res c05Result) {
	res.ID = c.ID
	outfile := filepath.Join(dir, fmt.Sprintf("r%d.csv", c.ID))
	defer os.Remove(outfile)
	defer os.Remove(outfile + ".query")
	qs := c05Query(c, outfile)
	res.Query = qs
	query, err := mapr.NewQuery(qs)
	if err != nil {
		res.Problem = "query: " + err.Error()
		return
	}
	parts := [][]string{{}, {}, {}}
	for i, l := range c.Lines {
		parts[c.Part[i]-1] = append(parts[c.Part[i]-1], c05Render(l, c.Format, i))
	}
	header := ""
	if c.Format == "csv" {
		header = "g,v"
	}
	m1, p := c05Server(qs, parts[0:2], header)
	if p != "" {
		res.Problem = p
		return
	}
	m2, p := c05Server(qs, parts[2:3], header)
	if p != "" {
		res.Problem = p
		return
	}
	global := mapr.NewGlobalGroupSet()
	c1 := client.NewAggregate("server1", query, global)
	c2 := client.NewAggregate("server2", query, global)
	rng := rand.New(rand.NewSource(vSeed()*7919 + int64(c.ID)))
	deliver := func(cl *client.Aggregate, msgs []string) {
		// the order of the groups within one serialisation is arbitrary (map iteration): pick one per seed
		sort.Strings(msgs)
		rng.Shuffle(len(msgs), func(i, j int) { msgs[i], msgs[j] = msgs[j], msgs[i] })
		for _, m := range msgs {
			cl.Aggregate(m) // a message without data is rejected with an error, as in the real handler
		}
	}
	// (a skipped merge is only made up for by a later message of the same server; losing the LAST message's merge is
	// C06's subject, so the lock is only held when a second interval will deliver something)
	accepted := 0 // messages of the second interval the client will not reject as "without any real data"
	for _, m := range m1[1] {
		if strings.Count(m, "∥") >= 3 {
			accepted++
		}
	}
	if c.Accumulate && len(m1[0]) > 0 && accepted > 0 {
		// hold the global lock while the first interval's messages arrive: their merge is skipped (MergeNoblock)
		gate, parked := make(chan struct{}), make(chan struct{})
		c05H.mu.Lock()
		c05H.gate[global], c05H.parked[global] = gate, parked
		c05H.mu.Unlock()
		holderDone := make(chan struct{})
		go func() { global.MergeNoblock(query, c05Holder); close(holderDone) }()
		<-parked
		// with a try-lock merge the messages return at once (merge skipped); with a blocking merge they wait for the lock
		delivered := make(chan struct{})
		go func() { deliver(c1, m1[0]); close(delivered) }()
		select {
		case <-delivered:
		case <-time.After(3 * time.Millisecond):
		}
		c05H.mu.Lock()
		delete(c05H.gate, global)
		delete(c05H.parked, global)
		c05H.mu.Unlock()
		close(gate)
		<-holderDone
		<-delivered
	} else {
		deliver(c1, m1[0])
	}
	deliver(c1, m1[1])
	deliver(c2, m2[0])
	if err := global.WriteResult(query, true); err != nil {
		res.Problem = "WriteResult: " + err.Error()
		return
	}
	data, err := os.ReadFile(outfile)
	if err != nil {
		res.Problem = "outfile: " + err.Error()
		return
	}
	ls := strings.Split(strings.TrimRight(string(data), "\n"), "\n")
	for _, l := range ls[1:] {
		if l != "" {
			res.Rows = append(res.Rows, strings.Split(l, ","))
		}
	}
	// the table a terminal user sees (same rows, same order and limit; 10 rows when the query has no limit)
	if table, _, err := global.Result(query, 10); err == nil {
		tl := strings.Split(strings.TrimRight(table, "\n"), "\n")
		for i, l := range tl {
			if i < 2 || strings.TrimSpace(l) == "" {
				continue
			}
			cells := strings.Split(l, "|")
			for k := range cells {
				cells[k] = strings.TrimSpace(cells[k])
			}
			res.Table = append(res.Table, cells)
		}
	} else {
		res.Problem = "Result: " + err.Error()
	}
	return
}

func TestC05Replay(t *testing.T) {
	vInit("none")
	c05Install()
	var cases []c05Case
	vReadJSON(t, "VERIF_CASES", &cases)
	dir, _ := os.MkdirTemp("", "c05-")
	defer os.RemoveAll(dir)
	results := make([]c05Result, len(cases))
	var wg sync.WaitGroup
	sem := make(chan struct{}, 16)
	for i := range cases {
		wg.Add(1)
		sem <- struct{}{}
		go func(i int) {
			defer wg.Done()
			defer func() { <-sem }()
			defer func() {
				if r := recover(); r != nil {
					results[i] = c05Result{ID: cases[i].ID, Problem: fmt.Sprintf("panic: %v", r)}
				}
			}()
			results[i] = c05Run(cases[i], dir)
		}(i)
	}
	wg.Wait()
	_ = math.Abs
	vWriteJSON(t, "VERIF_OUT", results)
}

// Magnitudes: one group whose partial count/sum crosses 10^6 within a single serialisation interval (the partial result
// then travels in exponent notation), next to small groups.  The central values follow from the definition of
// count/sum/min/max/avg over the lines fed; the driver computes them.
func TestC05Magnitude(t *testing.T) {
	vInit("none")
	c05Install()
	n := 1000005
	fmt.Sscanf(os.Getenv("VERIF_N"), "%d", &n)
	dir, _ := os.MkdirTemp("", "c05m-")
	defer os.RemoveAll(dir)
	outfile := filepath.Join(dir, "big.csv")
	qs := "select g,count($line),sum(v),min(v),max(v),avg(v) group by g interval 3600 logformat generickv outfile \"" + outfile + "\""
	query, err := mapr.NewQuery(qs)
	if err != nil {
		t.Fatal(err)
	}
	// a reader is faster than the aggregator and keeps its channel filled; the harness feeds from one goroutine, so it
	// gets a deeper channel instead (an aggregator that finds its channel empty sleeps 100 ms)
	c05ChanCap = 16384
	defer func() { c05ChanCap = 100 }()
	big := make([]string, 0, n)
	for i := 0; i < n; i++ {
		big = append(big, "g=a|v=1")
	}
	m1, p := c05Server(qs, [][]string{big, {"g=a|v=3", "g=b|v=2", "g=c|v=999999"}}, "")
	if p != "" {
		t.Fatal(p)
	}
	m2, p := c05Server(qs, [][]string{{"g=a|v=5", "g=c|v=1", "g=c|v=1000000"}}, "")
	if p != "" {
		t.Fatal(p)
	}
	global := mapr.NewGlobalGroupSet()
	c1 := client.NewAggregate("server1", query, global)
	c2 := client.NewAggregate("server2", query, global)
	for _, m := range m1[0] {
		c1.Aggregate(m)
	}
	for _, m := range m2[0] {
		c2.Aggregate(m)
	}
	for _, m := range m1[1] {
		c1.Aggregate(m)
	}
	if err := global.WriteResult(query, true); err != nil {
		t.Fatal(err)
	}
	data, _ := os.ReadFile(outfile)
	var rows [][]string
	for _, l := range strings.Split(strings.TrimRight(string(data), "\n"), "\n")[1:] {
		rows = append(rows, strings.Split(l, ","))
	}
	vWriteJSON(t, "VERIF_OUT", map[string]interface{}{"n": n, "rows": rows, "wire": append(append([]string{}, m1[0]...), m2[0]...)})
}

// Set clause with (nested) functions: "set $k = f(g(u))" means f applied to the result of g applied to u.  The central
// evaluation composes the two primitives (maskdigits, md5sum - trusted) in that order per line and groups by the result.
func TestC05SetFunctions(t *testing.T) {
	vInit("none")
	c05Install()
	dir, _ := os.MkdirTemp("", "c05f-")
	defer os.RemoveAll(dir)
	users := []string{"user1", "user22", "x9", "user1", "nodigits", "user22", "7", "user1"}
	type bad struct {
		Query string            `json:"query"`
		Want  map[string]string `json:"want"`
		Got   [][]string        `json:"got"`
	}
	var bads []bad
	evals := 0
	stacks := map[string]func(string) string{
		"maskdigits(u)":         func(s string) string { return funcs.MaskDigits(s) },
		"md5sum(u)":             func(s string) string { return funcs.Md5Sum(s) },
		"md5sum(maskdigits(u))": func(s string) string { return funcs.Md5Sum(funcs.MaskDigits(s)) },
		"maskdigits(md5sum(u))": func(s string) string { return funcs.MaskDigits(funcs.Md5Sum(s)) },
		"maskdigits(maskdigits(md5sum(u)))": func(s string) string { return funcs.MaskDigits(funcs.MaskDigits(funcs.Md5Sum(s))) },
	}
	i := 0
	for expr, f := range stacks {
		i++
		outfile := filepath.Join(dir, fmt.Sprintf("set%d.csv", i))
		qs := "select $k,count($line) set $k = " + expr + " group by $k logformat generickv outfile \"" + outfile + "\""
		query, err := mapr.NewQuery(qs)
		if err != nil {
			bads = append(bads, bad{qs, map[string]string{"error": err.Error()}, nil})
			continue
		}
		var l1, l2 []string
		want := map[string]int{}
		for k, u := range users {
			line := "u=" + u + "|n=" + strconv.Itoa(k)
			if k%2 == 0 {
				l1 = append(l1, line)
			} else {
				l2 = append(l2, line)
			}
			want[f(u)]++
		}
		m1, p := c05Server(qs, [][]string{l1}, "")
		m2, p2 := c05Server(qs, [][]string{l2}, "")
		if p != "" || p2 != "" {
			t.Fatal(p + p2)
		}
		global := mapr.NewGlobalGroupSet()
		c1 := client.NewAggregate("server1", query, global)
		c2 := client.NewAggregate("server2", query, global)
		for _, m := range m1[0] {
			c1.Aggregate(m)
		}
		for _, m := range m2[0] {
			c2.Aggregate(m)
		}
		if err := global.WriteResult(query, true); err != nil {
			t.Fatal(err)
		}
		data, _ := os.ReadFile(outfile)
		var rows [][]string
		got := map[string]string{}
		for _, l := range strings.Split(strings.TrimRight(string(data), "\n"), "\n")[1:] {
			r := strings.Split(l, ",")
			rows = append(rows, r)
			if len(r) == 2 {
				got[r[0]] = r[1]
			}
		}
		evals++
		ws := map[string]string{}
		for k, v := range want {
			ws[k] = strconv.Itoa(v)
		}
		same := len(ws) == len(got) && len(rows) == len(ws)
		for k, v := range ws {
			if got[k] != v {
				same = false
			}
		}
		if !same {
			bads = append(bads, bad{qs, ws, rows})
		}
	}
	vWriteJSON(t, "VERIF_OUT", map[string]interface{}{"evaluations": evals, "bad": bads})
}

// Group by several fields: a group is a tuple of values, a field a line lacks is an empty position of the tuple - lines
// (x=a, y missing) and (x missing, y=a) belong to different groups.  Central evaluation: counts and sums per distinct tuple.
func TestC05GroupByTuple(t *testing.T) {
	vInit("none")
	c05Install()
	dir, _ := os.MkdirTemp("", "c05g-")
	defer os.RemoveAll(dir)
	rng := rand.New(rand.NewSource(vSeed()))
	type bad struct {
		Query string              `json:"query"`
		Lines []string            `json:"lines"`
		Want  map[string][]string `json:"want"`
		Got   [][]string          `json:"got"`
	}
	var bads []bad
	evals := 0
	for round := 0; round < 6; round++ {
		outfile := filepath.Join(dir, fmt.Sprintf("tuple%d.csv", round))
		nkeys := 2 + round%2
		keys := []string{"x", "y", "z"}[:nkeys]
		sel := append([]string{"count($line)", "sum(n)"}, keys...)
		// both key=value formats: the generic one and dtail's default format (standard fields, then key=value pairs)
		format, from, prefix := "generickv", "", ""
		if round%2 == 1 {
			format, from, prefix = "default", " from T", "INFO|20211002-071209|1|c05.go:1|8|14|7|0.21|471h0m21s|MAPREDUCE:T|"
		}
		qs := "select " + strings.Join(sel, ",") + from + " group by " + strings.Join(keys, ",") + " logformat " + format + " outfile \"" + outfile + "\""
		query, err := mapr.NewQuery(qs)
		if err != nil {
			t.Fatal(err)
		}
		var lines []string
		type agg struct {
			cnt int
			sum int
			vals []string
		}
		want := map[string]*agg{}
		for i := 0; i < 14; i++ {
			parts := []string{fmt.Sprintf("n=%d", i+1)}
			vals := []string{}
			for _, k := range keys {
				// "" = the line lacks the field; a value may contain '=' itself (a URL's query string, base64 padding): the key
				// ends at the FIRST '='
				v := []string{"a", "b", "", "a", "u=1", "q=="}[rng.Intn(6)]
				vals = append(vals, v)
				if v != "" {
					parts = append(parts, k+"="+v)
				}
			}
			lines = append(lines, prefix+strings.Join(parts, "|"))
			tk := strings.Join(vals, "\x00")
			if want[tk] == nil {
				want[tk] = &agg{vals: vals}
			}
			want[tk].cnt++
			want[tk].sum += i + 1
		}
		m1, p1 := c05Server(qs, [][]string{lines[:5], lines[5:9]}, "")
		m2, p2 := c05Server(qs, [][]string{lines[9:]}, "")
		if p1 != "" || p2 != "" {
			t.Fatal(p1 + p2)
		}
		global := mapr.NewGlobalGroupSet()
		c1 := client.NewAggregate("server1", query, global)
		c2 := client.NewAggregate("server2", query, global)
		for _, ms := range [][]string{m1[0], m2[0], m1[1]} {
			for _, m := range ms {
				c1.Aggregate(m)
			}
		}
		_ = c2
		if err := global.WriteResult(query, true); err != nil {
			t.Fatal(err)
		}
		data, _ := os.ReadFile(outfile)
		var rows [][]string
		for _, l := range strings.Split(strings.TrimRight(string(data), "\n"), "\n")[1:] {
			rows = append(rows, strings.Split(l, ","))
		}
		evals++
		ws := map[string][]string{}
		for tk, a := range want {
			ws[strings.ReplaceAll(tk, "\x00", ",")] = append([]string{strconv.Itoa(a.cnt), fmt.Sprintf("%f", float64(a.sum))}, a.vals...)
		}
		ok := len(rows) == len(ws)
		for _, r := range rows {
			if len(r) != 2+nkeys {
				ok = false
				continue
			}
			w, have := ws[strings.Join(r[2:], ",")]
			if !have || w[0] != r[0] || w[1] != r[1] {
				ok = false
			}
		}
		if !ok {
			bads = append(bads, bad{qs, lines, ws, rows})
		}
	}
	vWriteJSON(t, "VERIF_OUT", map[string]interface{}{"evaluations": evals, "bad": bads})
}

// A csv cell is the value of the column's field, whatever its text - the empty text included: the same rows written as
// csv ("a,,3") and as key=value pairs ("g=a|v=|n=3") must give the same result for queries that count the field, take
// its last value or its length, or compare it with "".  (Both formats on two servers each, real client merge.)
func TestC05CsvEmptyCells(t *testing.T) {
	vInit("none")
	c05Install()
	dir, _ := os.MkdirTemp("", "c05e-")
	defer os.RemoveAll(dir)
	rng := rand.New(rand.NewSource(vSeed()))
	type bad struct {
		Query string     `json:"query"`
		Rows  []string   `json:"rows"`
		KV    [][]string `json:"generickv_result"`
		CSV   [][]string `json:"csv_result"`
	}
	var bads []bad
	evals := 0
	queries := []string{
		"select g,count(v),count($line) group by g order by g",
		"select g,last(v),len(v) group by g order by g",
		"select g,count($line),sum(n) where v eq \"\" group by g order by g",
		"select g,count($line),max(n) where v ne \"\" group by g order by g",
		"select v,count($line) group by v order by count($line)",
	}
	for round := 0; round < 4; round++ {
		type row struct{ g, v, n string }
		var rows []row
		for i := 0; i < 12; i++ {
			rows = append(rows, row{[]string{"a", "b", "c"}[rng.Intn(3)], []string{"", "", "x", "7"}[rng.Intn(4)], strconv.Itoa(i + 1)})
		}
		for _, q := range queries {
			var results [][][]string
			var shown []string
			for _, format := range []string{"generickv", "csv"} {
				outfile := filepath.Join(dir, fmt.Sprintf("e%d_%s.csv", round, format))
				os.Remove(outfile)
				qs := q + " logformat " + format + " outfile \"" + outfile + "\""
				query, err := mapr.NewQuery(qs)
				if err != nil {
					t.Fatal(err)
				}
				var lines []string
				for _, r := range rows {
					if format == "csv" {
						lines = append(lines, r.g+","+r.v+","+r.n)
					} else {
						lines = append(lines, "g="+r.g+"|v="+r.v+"|n="+r.n)
					}
				}
				shown = lines
				header := ""
				if format == "csv" {
					header = "g,v,n"
				}
				m1, p1 := c05Server(qs, [][]string{lines[:7]}, header)
				m2, p2 := c05Server(qs, [][]string{lines[7:]}, header)
				if p1 != "" || p2 != "" {
					t.Fatal(p1 + p2)
				}
				global := mapr.NewGlobalGroupSet()
				c1 := client.NewAggregate("server1", query, global)
				c2 := client.NewAggregate("server2", query, global)
				for _, m := range m1[0] {
					c1.Aggregate(m)
				}
				for _, m := range m2[0] {
					c2.Aggregate(m)
				}
				if err := global.WriteResult(query, true); err != nil {
					t.Fatal(err)
				}
				data, _ := os.ReadFile(outfile)
				var out [][]string
				for _, l := range strings.Split(strings.TrimRight(string(data), "\n"), "\n")[1:] {
					out = append(out, strings.Split(l, ","))
				}
				sort.Slice(out, func(i, j int) bool { return strings.Join(out[i], ",") < strings.Join(out[j], ",") })
				results = append(results, out)
			}
			evals++
			if fmt.Sprint(results[0]) != fmt.Sprint(results[1]) {
				bads = append(bads, bad{q, shown, results[0], results[1]})
			}
		}
	}
	vWriteJSON(t, "VERIF_OUT", map[string]interface{}{"evaluations": evals, "bad": bads})
}
