package fs

// C04 harness: the harness is the writer and the consumer of a followed file.  It performs the write() calls of a TLC
// behaviour of spec/Tail.tla on a real file followed by the real NewTailFile reader (pre-existing content of any shape,
// any chunking, also inside a multi-byte character), owns the delivery queue (capacity 1, 2 or 100) and takes lines when
// the behaviour says so.  "The reader has caught up" is observed hook-free: the read offset of the reader's descriptor in
// /proc/self/fdinfo equals the file size.

import (
	"context"
	"fmt"
	"math/rand"
	"os"
	"path/filepath"
	"strings"
	"sync"
	"testing"
	"time"

	"github.com/mimecast/dtail/internal/io/line"
	"github.com/mimecast/dtail/internal/lcontext"
	"github.com/mimecast/dtail/internal/regex"
)

type c04Case struct {
	ID     int        `json:"id"`
	Pre    []string   `json:"pre"`
	Steps  [][]string `json:"steps"` // ["open"] | ["write", b1, b2..] | ["take"]
	Cap    int        `json:"cap"`
	Filter bool       `json:"filter"`
	Seed   int64      `json:"seed"`
	Bulk   int        `json:"bulk"`   // > 0: bulk mode with that many lines
	Forget bool       `json:"forget"` // bulk: a drop followed by more than 100 filtered-out lines
	Long   bool       `json:"long"`   // a follow of ten seconds (three of the reader's 3 s truncation checks pass), lines trickling in,
	                                  // a partial line pending across each check; Symlink: the followed path is a symbolic link
	Symlink bool      `json:"symlink"`
	Stale  bool       `json:"stale"`  // bulk: a long fully transmitted history, then filtered-out lines reuse its slots, then ONE drop
}

type c04Line struct {
	Content string `json:"content"`
	N       int    `json:"n"`
	Perc    int    `json:"perc"`
}

type c04Result struct {
	ID        int       `json:"id"`
	Delivered []c04Line `json:"delivered"`
	Appended  []string  `json:"appended"` // all complete lines appended after the open (before the filter)
	Bad       []string  `json:"bad"`
	Forgotten bool      `json:"forgotten"` // a drop that the next delivered line did not report although > 100 lines lay between
	Problem   string    `json:"problem"`
}

func c04Offset(path string) (int64, bool) {
	ents, err := os.ReadDir("/proc/self/fd")
	if err != nil {
		return 0, false
	}
	for _, e := range ents {
		if l, err := os.Readlink("/proc/self/fd/" + e.Name()); err == nil && l == path {
			b, err := os.ReadFile("/proc/self/fdinfo/" + e.Name())
			if err != nil {
				continue
			}
			var pos int64
			var flags int
			fmt.Sscanf(string(b), "pos:\t%d\nflags:\t%o", &pos, &flags)
			if flags&1 == 0 && flags&2 == 0 { // opened read-only: the reader's descriptor
				return pos, true
			}
		}
	}
	return 0, false
}

func c04CaughtUp(path string) bool {
	deadline := time.Now().Add(3 * time.Second)
	for time.Now().Before(deadline) {
		st, err := os.Stat(path)
		if err == nil {
			if pos, ok := c04Offset(path); ok && pos == st.Size() {
				time.Sleep(4 * time.Millisecond)
				return true
			}
		}
		time.Sleep(2 * time.Millisecond)
	}
	return false
}

func c04Concrete(sym string, rng *rand.Rand) string {
	switch sym {
	case "a":
		return []string{"a", "a", "ä-a", "€a"}[rng.Intn(4)]
	case "b":
		return []string{"b", "é", "日本", "𝄞", "\xff\xfe"}[rng.Intn(5)]
	}
	return "\n"
}

func c04Run(c c04Case, base string) (res c04Result) {
	res.ID = c.ID
	rng := rand.New(rand.NewSource(c.Seed))
	path := filepath.Join(base, fmt.Sprintf("follow%d.log", c.ID))
	defer os.Remove(path)
	var pre strings.Builder
	for _, s := range c.Pre {
		pre.WriteString(c04Concrete(s, rng))
	}
	os.WriteFile(path, []byte(pre.String()), 0644)
	capacity := c.Cap
	if capacity <= 0 {
		capacity = 100
	}
	lines := make(chan *line.Line, capacity)
	msgs := make(chan string, 1000)
	ctx, cancel := context.WithCancel(context.Background())
	defer cancel()
	re := regex.NewNoop()
	if c.Filter {
		re, _ = regex.New("a", regex.Default)
	}
	var wg sync.WaitGroup
	take := func(wait time.Duration) bool {
		select {
		case l := <-lines:
			res.Delivered = append(res.Delivered, c04Line{l.Content.String(), int(l.Count), l.TransmittedPerc})
			return true
		case <-time.After(wait):
			return false
		}
	}
	var appended strings.Builder
	opened := false
	write := func(data string) {
		f, err := os.OpenFile(path, os.O_APPEND|os.O_WRONLY, 0644)
		if err != nil {
			res.Problem = err.Error()
			return
		}
		// one write() call - or two, split at an arbitrary byte (also inside a multi-byte character)
		if len(data) > 1 && rng.Intn(2) == 0 {
			k := 1 + rng.Intn(len(data)-1)
			f.WriteString(data[:k])
			if opened {
				c04CaughtUp(path)
			}
			f.WriteString(data[k:])
		} else {
			f.WriteString(data)
		}
		f.Close()
		if opened { // what is written before the follow begins is pre-existing content
			appended.WriteString(data)
			c04CaughtUp(path)
		}
	}
	followPath := path
	if c.Symlink {
		followPath = path + ".current"
		os.Symlink(filepath.Base(path), followPath)
		defer os.Remove(followPath)
	}
	open := func() {
		wg.Add(1)
		go func() {
			defer wg.Done()
			NewTailFile(followPath, "id", msgs).Start(ctx, lcontext.LContext{}, lines, re)
		}()
		if !c04CaughtUp(path) {
			res.Problem = "the reader did not open the file"
		}
		opened = true
	}
	if c.Long {
		open()
		start := time.Now()
		n := 0
		stopTake := make(chan struct{})
		takeDone := make(chan struct{})
		go func() { // an attentive consumer
			defer close(takeDone)
			for {
				select {
				case <-stopTake:
					return
				default:
					take(20 * time.Millisecond)
				}
			}
		}()
		appendRaw := func(data string) {
			if f, err := os.OpenFile(path, os.O_APPEND|os.O_WRONLY, 0644); err == nil {
				f.WriteString(data)
				f.Close()
				appended.WriteString(data)
			}
		}
		for time.Since(start) < 9700*time.Millisecond {
			n++
			l := fmt.Sprintf("long follow line %d with an a in it %s\n", n, strings.Repeat("=", rng.Intn(40)))
			el := time.Since(start) % (3 * time.Second)
			if t := time.Since(start); (t > 2800*time.Millisecond && t < 3200*time.Millisecond) || (t > 8800*time.Millisecond && t < 9200*time.Millisecond) {
				// around the reader's first periodic check: lines as fast as the writer can (the reader is at the end of
				// the file again and again while more is being appended)
				appendRaw(l)
				continue
			}
			if el > 2600*time.Millisecond && time.Since(start) > 4*time.Second && time.Since(start) < 7*time.Second {
				// around the reader's periodic check: the first half of a line, a pause across the check, the second half
				appendRaw(l[:len(l)/2])
				time.Sleep(900 * time.Millisecond)
				appendRaw(l[len(l)/2:])
			} else {
				appendRaw(l)
			}
			time.Sleep(time.Duration(5+rng.Intn(40)) * time.Millisecond)
		}
		time.Sleep(300 * time.Millisecond)
		close(stopTake)
		<-takeDone
	} else if c.Bulk > 0 {
		open()
		n := 0
		emit := func(match bool) string {
			n++
			if match {
				return fmt.Sprintf("line %d with an a in it\n", n)
			}
			return fmt.Sprintf("l1n3 %d w1th0ut\n", n)
		}
		if c.Stale {
			// >= 100 selected lines, all taken at once (everything transmitted) ...
			for i := 0; i < 110; i++ {
				write(emit(true))
				take(50 * time.Millisecond)
			}
			// ... then lines the filter rejects reuse 60 of the ring's slots ...
			var sb strings.Builder
			for i := 0; i < 60; i++ {
				sb.WriteString(emit(false))
			}
			write(sb.String())
			// ... then the consumer stalls: the queue fills and exactly one selected line is dropped ...
			for i := 0; i < capacity+1; i++ {
				write(emit(true))
			}
			for take(20 * time.Millisecond) {
			}
			// ... and the next delivered line must report the loss
			write(emit(true))
			n = c.Bulk
		}
		for n < c.Bulk {
			burst := 1 + rng.Intn(12)
			var sb strings.Builder
			for i := 0; i < burst && n < c.Bulk; i++ {
				sb.WriteString(emit(!c.Filter || rng.Intn(3) != 0))
			}
			write(sb.String())
			if capacity >= 100 {
				for take(3 * time.Millisecond) { // an attentive consumer: the ample queue never fills up
				}
			} else {
				for i := rng.Intn(3); i > 0; i-- {
					take(5 * time.Millisecond)
				}
			}
		}
		if c.Forget {
			// queue is full now (nobody took for a while): this matching line is dropped ...
			for len(lines) < capacity {
				write(emit(true))
			}
			write(emit(true))
			// ... then more lines than the statistics ring holds are filtered out ...
			var sb strings.Builder
			for i := 0; i < 130; i++ {
				sb.WriteString(emit(false))
			}
			write(sb.String())
			for take(20 * time.Millisecond) {
			}
			// ... and the next delivered line reports the transmission percentage
			write(emit(true))
		}
	} else {
		for _, st := range c.Steps {
			switch st[0] {
			case "open":
				open()
			case "write":
				var sb strings.Builder
				for _, s := range st[1:] {
					sb.WriteString(c04Concrete(s, rng))
				}
				write(sb.String())
			case "take":
				take(300 * time.Millisecond)
			}
			if res.Problem != "" {
				break
			}
		}
	}
	for take(60 * time.Millisecond) {
	}
	cancel()
	wg.Wait()
	// ---- oracle: complete lines appended after the open, in order
	all := strings.SplitAfter(appended.String(), "\n")
	if len(all) > 0 && !strings.HasSuffix(all[len(all)-1], "\n") {
		all = all[:len(all)-1] // the incomplete last line is held back
	}
	// content before the open that lacked its newline: the first appended newline completes THAT line; the reader started
	// behind it, so what it delivers as its first line is the part appended after the open - that is what 'all' holds
	res.Appended = all
	idx := 0
	lastN := 0
	for di, d := range res.Delivered {
		found := -1
		// equal lines (e.g. several empty ones) are told apart by the running number the line carries
		if k := int(d.N) - 1; k >= idx && k < len(all) && all[k] == d.Content {
			found = k
		}
		for j := idx; found < 0 && j < len(all); j++ {
			if all[j] == d.Content {
				found = j
				break
			}
		}
		if found < 0 {
			res.Bad = append(res.Bad, fmt.Sprintf("delivered line %d %q is not a complete appended line (in order, unmodified)", di+1, d.Content))
			break
		}
		skippedMatching := 0
		for j := idx; j < found; j++ {
			if !c.Filter || strings.Contains(all[j], "a") {
				skippedMatching++
			}
		}
		if d.N != found+1 {
			res.Bad = append(res.Bad, fmt.Sprintf("line %q carries number %d, it is line %d since the follow began", d.Content, d.N, found+1))
		}
		if skippedMatching > 0 && d.Perc >= 100 {
			if found-idx > 100 {
				res.Forgotten = true
			} else {
				res.Bad = append(res.Bad, fmt.Sprintf("%d selected line(s) before %q were dropped but it reports %d%%", skippedMatching, d.Content, d.Perc))
			}
		}
		if skippedMatching > 0 && capacity >= 100 && !c.Long { // (a long follow has a burst phase in which even the ample queue overflows)
			res.Bad = append(res.Bad, fmt.Sprintf("%d selected line(s) before %q are missing although the queue was never full", skippedMatching, d.Content))
		}
		if d.N <= lastN {
			res.Bad = append(res.Bad, "running numbers do not increase")
		}
		lastN = d.N
		idx = found + 1
	}
	if capacity >= 100 && len(res.Bad) == 0 {
		for j := idx; j < len(all); j++ {
			if !c.Filter || strings.Contains(all[j], "a") {
				res.Bad = append(res.Bad, fmt.Sprintf("appended line %q was never delivered", all[j]))
				break
			}
		}
	}
	if len(res.Delivered) > 40 {
		res.Delivered = res.Delivered[:40]
	}
	if len(res.Appended) > 40 {
		res.Appended = res.Appended[:40]
	}
	return
}

func TestC04Replay(t *testing.T) {
	vInit("none")
	var cases []c04Case
	vReadJSON(t, "VERIF_CASES", &cases)
	base, _ := os.MkdirTemp("", "c04-")
	defer os.RemoveAll(base)
	results := make([]c04Result, len(cases))
	var wg sync.WaitGroup
	sem := make(chan struct{}, 16)
	for i := range cases {
		wg.Add(1)
		sem <- struct{}{}
		go func(i int) {
			defer wg.Done()
			defer func() { <-sem }()
			results[i] = c04Run(cases[i], base)
		}(i)
	}
	wg.Wait()
	vWriteJSON(t, "VERIF_OUT", results)
}
