package fs

// C03 harness: every (file, kind, before, after, max) case enumerated by TLC is written as a real file and
// read through the real cat reader with a real regex; the delivered (line number, content) pairs are compared
// with the Ref answer computed by TLC.  TestC03Records produces records of large random files for TLC.

import (
	"bytes"
	"context"
	"fmt"
	"math/rand"
	"os"
	"path/filepath"
	"strings"
	"sync"
	"testing"
	"time"

	"github.com/mimecast/dtail/internal/io/line"
	"github.com/mimecast/dtail/internal/lcontext"
	"github.com/mimecast/dtail/internal/regex"
)

type c03Case struct {
	File []bool `json:"file"`
	Kind string `json:"kind"`
	B    int    `json:"b"`
	A    int    `json:"a"`
	M    int    `json:"m"`
	Exp  []int  `json:"exp"`
}

type c03Bad struct {
	Case    c03Case  `json:"case"`
	Pattern string   `json:"pattern"`
	FinalNL bool     `json:"final_newline"`
	Got     []int    `json:"got"`
	Problem string   `json:"problem"`
}

type c03Out struct {
	Evaluations int      `json:"evaluations"`
	Bad         []c03Bad `json:"bad"`
	Hangs       int      `json:"hangs"`
}

func c03Regex(kind string, rng *rand.Rand) (regex.Regex, string, error) {
	switch kind {
	case "noop":
		p := []string{"", ".", ".*"}[rng.Intn(3)]
		r, err := regex.New(p, regex.Default)
		return r, p, err
	case "invert":
		p := []string{"m", "^m", "m[0-9]+ hit", "hit"}[rng.Intn(4)]
		r, err := regex.New(p, regex.Invert)
		return r, p, err
	default:
		p := []string{"m", "^m", "m[0-9]+ hit", "hit"}[rng.Intn(4)]
		r, err := regex.New(p, regex.Default)
		return r, p, err
	}
}

func c03Content(file []bool, finalNL bool) (string, []string) {
	lines := make([]string, len(file))
	for i, m := range file {
		if m {
			lines[i] = fmt.Sprintf("m%d hit", i+1)
		} else {
			lines[i] = fmt.Sprintf("x%d other", i+1)
		}
	}
	s := strings.Join(lines, "\n")
	if finalNL && len(lines) > 0 {
		s += "\n"
	}
	return s, lines
}

// c03Read runs the real reader; returns line numbers and contents, or a problem.
func c03Read(path string, ltx lcontext.LContext, re regex.Regex) (nums []int, contents []string, problem string) {
	lines := make(chan *line.Line, 100)
	msgs := make(chan string, 100)
	ctx, cancel := context.WithCancel(context.Background())
	defer cancel()
	done := make(chan error, 1)
	go func() {
		defer func() {
			if r := recover(); r != nil {
				done <- fmt.Errorf("panic: %v", r)
			}
		}()
		done <- NewCatFile(path, "id", msgs).Start(ctx, ltx, lines, re)
	}()
	timeout := time.After(20 * time.Second)
	for {
		select {
		case l := <-lines:
			nums = append(nums, int(l.Count))
			contents = append(contents, l.Content.String())
		case err := <-done:
			for {
				select {
				case l := <-lines:
					nums = append(nums, int(l.Count))
					contents = append(contents, l.Content.String())
					continue
				default:
				}
				break
			}
			if err != nil {
				problem = err.Error()
			}
			return
		case <-timeout:
			problem = "reader did not return within 20 s"
			return
		}
	}
}

func c03Check(c c03Case, idx int, dir string, seed int64) *c03Bad {
	rng := rand.New(rand.NewSource(seed + int64(idx)*7919))
	finalNL := rng.Intn(3) != 0
	content, lines := c03Content(c.File, finalNL)
	path := filepath.Join(dir, fmt.Sprintf("f%d.log", idx))
	os.WriteFile(path, []byte(content), 0644)
	defer os.Remove(path)
	re, pat, err := c03Regex(c.Kind, rng)
	if err != nil {
		return &c03Bad{Case: c, Pattern: pat, Problem: err.Error()}
	}
	ltx := lcontext.LContext{BeforeContext: c.B, AfterContext: c.A, MaxCount: c.M}
	nums, contents, problem := c03Read(path, ltx, re)
	bad := problem != "" || len(nums) != len(c.Exp)
	if !bad {
		for i := range nums {
			if nums[i] != c.Exp[i] {
				bad = true
				break
			}
			want := lines[nums[i]-1]
			if nums[i] != len(lines) || finalNL {
				want += "\n"
			}
			if contents[i] != want {
				bad = true
				problem = fmt.Sprintf("line %d delivered as %q, file has %q", nums[i], contents[i], want)
				break
			}
		}
	}
	if bad {
		return &c03Bad{Case: c, Pattern: pat, FinalNL: finalNL, Got: nums, Problem: problem}
	}
	return nil
}

func TestC03Replay(t *testing.T) {
	vInit("none")
	var cases []c03Case
	vReadJSON(t, "VERIF_CASES", &cases)
	dir, _ := os.MkdirTemp("", "c03-")
	defer os.RemoveAll(dir)
	var out c03Out
	var mu sync.Mutex
	var wg sync.WaitGroup
	sem := make(chan struct{}, 16)
	seed := vSeed()
	for i := range cases {
		wg.Add(1)
		sem <- struct{}{}
		go func(i int) {
			defer wg.Done()
			defer func() { <-sem }()
			b := c03Check(cases[i], i, dir, seed)
			mu.Lock()
			out.Evaluations++
			if b != nil && len(out.Bad) < 50 {
				out.Bad = append(out.Bad, *b)
			}
			mu.Unlock()
		}(i)
	}
	wg.Wait()
	vWriteJSON(t, "VERIF_OUT", out)
}

// Patterns whose result depends on the line terminator: grep matches a line without its newline.
func TestC03Anchors(t *testing.T) {
	vInit("none")
	dir, _ := os.MkdirTemp("", "c03a-")
	defer os.RemoveAll(dir)
	path := filepath.Join(dir, "a.log")
	os.WriteFile(path, []byte("foo\nbar\nfoo bar\nbaz foo\n\nfoo"), 0644)
	type res struct {
		Pattern string `json:"pattern"`
		Invert  bool   `json:"invert"`
		Got     []int  `json:"got"`
		Want    []int  `json:"want"`
	}
	var out []res
	for _, tc := range []struct {
		p    string
		inv  bool
		want []int
	}{
		{"foo$", false, []int{1, 4, 6}}, {"^foo$", false, []int{1, 6}}, {"^$", false, []int{5}},
		{"[^a-z ]", false, nil}, {"r$", false, []int{2, 3}}, {"foo$", true, []int{2, 3, 5}},
		{`\s`, false, []int{3, 4}}, {`o\z`, false, []int{1, 4, 6}},
	} {
		flag := regex.Default
		if tc.inv {
			flag = regex.Invert
		}
		re, err := regex.New(tc.p, flag)
		if err != nil {
			t.Fatal(err)
		}
		nums, _, _ := c03Read(path, lcontext.LContext{}, re)
		out = append(out, res{tc.p, tc.inv, nums, tc.want})
	}
	vWriteJSON(t, "VERIF_OUT", out)
}

func TestC03Records(t *testing.T) {
	vInit("none")
	rng := rand.New(rand.NewSource(vSeed()))
	dir, _ := os.MkdirTemp("", "c03r-")
	defer os.RemoveAll(dir)
	n := 30
	fmt.Sscanf(os.Getenv("VERIF_N"), "%d", &n)
	var buf bytes.Buffer
	for id := 1; id <= n; id++ {
		size := 40 + rng.Intn(160)
		density := []float64{0.02, 0.1, 0.5, 0.9}[rng.Intn(4)]
		file := make([]bool, size)
		for i := range file {
			file[i] = rng.Float64() < density
		}
		pick := func() int { return []int{0, 0, 1, 2, 3, 5, 17, size, size + 10}[rng.Intn(9)] }
		c := c03Case{File: file, Kind: []string{"default", "invert", "noop"}[rng.Intn(3)], B: pick(), A: pick(), M: pick()}
		content, _ := c03Content(file, rng.Intn(2) == 0)
		path := filepath.Join(dir, fmt.Sprintf("r%d.log", id))
		os.WriteFile(path, []byte(content), 0644)
		re, _, err := c03Regex(c.Kind, rng)
		if err != nil {
			t.Fatal(err)
		}
		nums, _, problem := c03Read(path, lcontext.LContext{BeforeContext: c.B, AfterContext: c.A, MaxCount: c.M}, re)
		if problem != "" {
			nums = []int{-1}
		}
		ints := make([]string, size)
		for i, m := range file {
			ints[i] = "0"
			if m {
				ints[i] = "1"
			}
		}
		outs := make([]string, len(nums))
		for i, v := range nums {
			outs[i] = fmt.Sprint(v)
		}
		fmt.Fprintf(&buf, "{\"id\":%d,\"file\":[%s],\"kind\":%q,\"b\":%d,\"a\":%d,\"m\":%d,\"out\":[%s]}\n",
			id, strings.Join(ints, ","), c.Kind, c.B, c.A, c.M, strings.Join(outs, ","))
	}
	os.WriteFile(os.Getenv("VERIF_OUT"), buf.Bytes(), 0644)
}
