package discovery

// C18 harness: (A) every abstract input list enumerated by TLC is concretised and run through the real
// ServerList() in comma form and in file form (with / without final newline, with the white-box filter);
// (B) large random lists are run and (input, output) records are written for TLC to evaluate Ref on.

import (
	"syscall"
	"fmt"
	"math/rand"
	"os"
	"path/filepath"
	"regexp"
	"sort"
	"strings"
	"testing"
)

type c18Case struct {
	Input  []string `json:"input"`
	Match  []string `json:"match"`
	Wanted []string `json:"wanted"`
}

type c18Bad struct {
	Case   c18Case  `json:"case"`
	Form   string   `json:"form"`
	Input  []string `json:"concrete_input"`
	Got    []string `json:"got"`
	Want   []string `json:"want"`
	Panic  string   `json:"panic,omitempty"`
}

type c18Out struct {
	Evaluations int      `json:"evaluations"`
	Bad         []c18Bad `json:"bad"`
	Records     int      `json:"records"`
}

func c18Concrete(seed int64) map[string]string {
	rng := rand.New(rand.NewSource(seed))
	h := func() string {
		return fmt.Sprintf("srv%d.dc%d.example.org", rng.Intn(900)+100, rng.Intn(9))
	}
	a, b, c := h(), h(), h()
	for b == a {
		b = h()
	}
	for c == a || c == b {
		c = h()
	}
	return map[string]string{"a": a, "b": b, "c": c, "a:22": fmt.Sprintf("%s:%d", a, 2000+rng.Intn(1000)), "": ""}
}

func c18Run(form string, entries []string, re *regexp.Regexp, dir string) (out []string, pan string) {
	defer func() {
		if r := recover(); r != nil {
			pan = fmt.Sprint(r)
		}
	}()
	var server string
	switch form {
	case "comma":
		server = strings.Join(entries, ",")
	case "file-nl", "file-nonl":
		server = filepath.Join(dir, fmt.Sprintf("servers-%d.txt", rand.Int63()))
		content := strings.Join(entries, "\n")
		if form == "file-nl" && len(entries) > 0 {
			content += "\n"
		}
		os.WriteFile(server, []byte(content), 0644)
		defer os.Remove(server)
	case "fifo":
		// the list handed over as a named pipe (what "--servers <(command)" amounts to): a file like any other
		server = filepath.Join(dir, fmt.Sprintf("servers-%d.fifo", rand.Int63()))
		if err := syscall.Mkfifo(server, 0644); err != nil {
			return nil, "mkfifo: " + err.Error()
		}
		defer os.Remove(server)
		go func() {
			if fd, err := os.OpenFile(server, os.O_WRONLY, 0); err == nil {
				fd.WriteString(strings.Join(entries, "\n") + "\n")
				fd.Close()
			}
		}()
	}
	var d *Discovery
	if re == nil {
		d = New("", server, Shuffle)
	} else {
		d = &Discovery{server: server, regex: re, order: Shuffle}
	}
	out = d.ServerList()
	return
}

func c18Sorted(l []string) []string {
	c := append([]string{}, l...)
	sort.Strings(c)
	return c
}

func TestC18Replay(t *testing.T) {
	vInit("none")
	var cases []c18Case
	vReadJSON(t, "VERIF_CASES", &cases)
	conc := c18Concrete(vSeed())
	dir, _ := os.MkdirTemp("", "c18-")
	defer os.RemoveAll(dir)
	var out c18Out
	for _, c := range cases {
		entries := make([]string, len(c.Input))
		for i, e := range c.Input {
			entries[i] = conc[e]
		}
		want := []string{}
		for _, e := range c.Wanted {
			want = append(want, conc[e])
		}
		want = c18Sorted(want)
		var re *regexp.Regexp
		if len(c.Match) < 5 { // a real filter: matches exactly the concrete entries of the abstract match set
			alts := []string{}
			for _, e := range c.Match {
				alts = append(alts, regexp.QuoteMeta(conc[e]))
			}
			if len(alts) == 0 {
				re = regexp.MustCompile(`^\x00nomatch$`)
			} else {
				re = regexp.MustCompile("^(?:" + strings.Join(alts, "|") + ")$")
			}
		}
		forms := []string{}
		if len(entries) >= 1 {
			forms = append(forms, "comma") // the comma form cannot express the empty list
		}
		if len(entries) >= 1 && entries[len(entries)-1] != "" {
			forms = append(forms, "file-nl", "file-nonl", "fifo")
		} else if len(entries) == 0 {
			forms = append(forms, "file-nl")
		}
		for _, form := range forms {
			if form == "comma" && len(entries) == 1 && entries[0] == "" {
				continue // "" is not a usable server string
			}
			if form == "comma" {
				if _, err := os.Stat(strings.Join(entries, ",")); err == nil {
					continue
				}
			}
			got, pan := c18Run(form, entries, re, dir)
			out.Evaluations++
			g := c18Sorted(got)
			if pan != "" || strings.Join(g, "\x00") != strings.Join(want, "\x00") || len(g) != len(want) {
				if len(out.Bad) < 50 {
					out.Bad = append(out.Bad, c18Bad{Case: c, Form: form, Input: entries, Got: got, Want: want, Panic: pan})
				}
			}
		}
	}
	vWriteJSON(t, "VERIF_OUT", out)
}

// (B) random large lists; integers stand for host names so that TLC can evaluate Ref on the records.
func TestC18Records(t *testing.T) {
	vInit("none")
	rng := rand.New(rand.NewSource(vSeed()))
	dir, _ := os.MkdirTemp("", "c18r-")
	defer os.RemoveAll(dir)
	n := 40
	fmt.Sscanf(os.Getenv("VERIF_N"), "%d", &n)
	f, err := os.Create(os.Getenv("VERIF_OUT"))
	if err != nil {
		t.Fatal(err)
	}
	defer f.Close()
	name := func(i int) string {
		if i%7 == 3 {
			return fmt.Sprintf("host%d.example.org:%d", i, 2222+i%5)
		}
		return fmt.Sprintf("host%d.example.org", i)
	}
	for id := 1; id <= n; id++ {
		size := []int{1, 2, 3, 10, 100, 1000, 3000}[rng.Intn(7)]
		if id%5 == 0 {
			size = 1 + rng.Intn(400)
		}
		distinct := 1 + rng.Intn(size)
		ints := make([]int, size)
		entries := make([]string, size)
		for i := range ints {
			ints[i] = 1 + rng.Intn(distinct)
			entries[i] = name(ints[i])
		}
		var re *regexp.Regexp
		match := []int{}
		mod := 1 + rng.Intn(3)
		if id%2 == 0 {
			alts := []string{}
			for v := 1; v <= distinct; v++ {
				if v%mod == 0 {
					match = append(match, v)
					alts = append(alts, regexp.QuoteMeta(name(v)))
				}
			}
			if len(alts) == 0 {
				re = regexp.MustCompile(`^\x00$`)
			} else {
				re = regexp.MustCompile("^(?:" + strings.Join(alts, "|") + ")$")
			}
		} else {
			for v := 1; v <= distinct; v++ {
				match = append(match, v)
			}
		}
		form := []string{"comma", "file-nl", "file-nonl"}[rng.Intn(3)]
		got, pan := c18Run(form, entries, re, dir)
		outInts := []int{}
		back := map[string]int{}
		for v := 1; v <= distinct; v++ {
			back[name(v)] = v
		}
		for _, g := range got {
			v, ok := back[g]
			if !ok {
				v = -1 // an invented server
			}
			outInts = append(outInts, v)
		}
		if pan != "" {
			outInts = []int{-2}
		}
		fmt.Fprintf(f, "{\"id\":%d,\"input\":%s,\"match\":%s,\"output\":%s}\n", id, c18Ints(ints), c18Ints(match), c18Ints(outInts))
	}
}

func c18Ints(l []int) string {
	s := make([]string, len(l))
	for i, v := range l {
		s[i] = fmt.Sprint(v)
	}
	return "[" + strings.Join(s, ",") + "]"
}
