package handlers

// C06 harness, server half: a real server session runs "map <query>" plus a cat over a glob of N files behind a cat
// limit of C.  The trace points mapr.register (a reader is about to register its channel), agg.closed (the aggregator
// found its current channel closed and is about to decide) and agg.requeue (a re-queue goroutine is about to hand a
// channel back) are blocking GATES: the goroutine that reaches one parks until the replayer releases that gate.  The
// replayer releases the gates in the order of a TLC behaviour of spec/MaprSched.tla, so the real goroutines run exactly
// that interleaving (a gate nobody reaches in time ends the replay, everything then runs free).  Outcome, hook-free:
// the sum of the counts in the AGGREGATE messages against the number of lines, and whether the session ends.

import (
	"bytes"
	"compress/gzip"
	"syscall"
	"encoding/base64"
	"fmt"
	"os"
	"path/filepath"
	"reflect"
	"strconv"
	"strings"
	"sync"
	"testing"
	"time"

	"github.com/mimecast/dtail/internal/config"
	user "github.com/mimecast/dtail/internal/user/server"
)

type c06Step struct {
	A string `json:"a"`
	F int    `json:"f"`
}

type c06Case struct {
	ID     int       `json:"id"`
	NFiles int       `json:"nfiles"`
	Lines  []int     `json:"lines"`
	Limit  int       `json:"limit"`
	Sched  []c06Step `json:"sched"`
	Free   bool      `json:"free"` // no gating at all
	// Interim: the periodic serialisation runs in the middle of the read.  One input that delivers Lines[0] lines, pauses
	// beyond the query's interval (1 s) and delivers 3 more; every line is its own group (more groups than the
	// 10-entry message queue holds) and the consumer needs 3 ms per message.
	Interim bool `json:"interim"`
	Same    bool `json:"same"` // interim runs: all lines belong to two groups (group by grp) instead of one group per line
	Broken    bool `json:"broken"`    // free runs: the glob also matches files the reader cannot decode (an empty .gz, as log rotation leaves it) and a directory
	OnlyDir   bool `json:"onlydir"`   // nothing the glob matches can be read (a directory): no file, no line - the run must end with an empty result
	NoFinalNL bool `json:"nofinalnl"` // every second file ends without a newline (its last line still counts)
}

type c06Result struct {
	ID        int      `json:"id"`
	Total     int      `json:"total"`
	Counted   int      `json:"counted"`
	Ended     bool     `json:"ended"`
	Followed  int      `json:"followed"` // steps of the TLC behaviour that were replayed before divergence / end
	Skipped   int      `json:"skipped"`  // re-queue steps skipped because no swap had happened in the real run
	Diverged  string   `json:"diverged"`
	Trace     []string `json:"trace"`
	Problem   string   `json:"problem"`
}

type c06Gate struct {
	kind string // register | closed | requeue
	file int
	ch   chan struct{}
}

type c06World struct {
	mu       sync.Mutex
	handler  uintptr
	agg      uintptr
	fileOf   map[string]int
	parked   []*c06Gate
	free     bool
	trace    []string
	cond     *sync.Cond
}

var c06Worlds sync.Map // handler address -> *c06World ; aggregate address -> *c06World

func c06Addr(x interface{}) uintptr {
	v := reflect.ValueOf(x)
	if v.Kind() != reflect.Ptr {
		return 0
	}
	return v.Pointer()
}

func c06Install() {
	vhookInstall(func(point string, kv ...interface{}) {
		if len(kv) == 0 || !(strings.HasPrefix(point, "agg.") || strings.HasPrefix(point, "mapr.") || strings.HasPrefix(point, "cmd.")) {
			return
		}
		wv, ok := c06Worlds.Load(c06Addr(kv[0]))
		if !ok {
			return
		}
		w := wv.(*c06World)
		file := 0
		if len(kv) >= 2 {
			if p, ok := kv[1].(string); ok {
				file = w.fileOf[p]
			}
		}
		w.mu.Lock()
		if point != "agg.line" && point != "agg.skip" && point != "agg.serialized" {
			w.trace = append(w.trace, fmt.Sprintf("%s:%d", point, file))
		}
		var g *c06Gate
		if !w.free {
			switch point {
			case "mapr.register":
				g = &c06Gate{"register", file, make(chan struct{})}
			case "agg.closed":
				g = &c06Gate{"closed", 0, make(chan struct{})}
			case "agg.requeue":
				g = &c06Gate{"requeue", 0, make(chan struct{})}
			}
			if g != nil {
				w.parked = append(w.parked, g)
				w.cond.Broadcast()
			}
		}
		w.mu.Unlock()
		if g != nil {
			<-g.ch
		}
	})
}

// release waits until a goroutine is parked at the wanted gate and lets it go on
func (w *c06World) release(kind string, file int, wait time.Duration) bool {
	deadline := time.Now().Add(wait)
	for {
		w.mu.Lock()
		for i, g := range w.parked {
			if g.kind == kind && (kind != "register" || g.file == file) {
				w.parked = append(w.parked[:i], w.parked[i+1:]...)
				w.mu.Unlock()
				close(g.ch)
				return true
			}
		}
		w.mu.Unlock()
		if time.Now().After(deadline) {
			return false
		}
		time.Sleep(200 * time.Microsecond)
	}
}

func (w *c06World) freeAll() {
	w.mu.Lock()
	w.free = true
	for _, g := range w.parked {
		close(g.ch)
	}
	w.parked = nil
	w.mu.Unlock()
}

func c06Frame(payload string) []byte {
	return []byte("protocol 4.1 base64 " + base64.StdEncoding.EncodeToString([]byte(payload)) + ";")
}

func c06Run(c c06Case, base string) (res c06Result) {
	res.ID = c.ID
	dir := filepath.Join(base, fmt.Sprintf("case%d", c.ID))
	os.MkdirAll(dir, 0755)
	defer os.RemoveAll(dir)
	w := &c06World{fileOf: map[string]int{}, free: c.Free}
	w.cond = sync.NewCond(&w.mu)
	if c.Interim {
		p := filepath.Join(dir, "f01.log")
		if err := syscall.Mkfifo(p, 0644); err != nil {
			res.Problem = "mkfifo: " + err.Error()
			return
		}
		w.fileOf[p] = 1
		res.Total = c.Lines[0] + 3
		go func() {
			fd, err := os.OpenFile(p, os.O_WRONLY, 0)
			if err != nil {
				return
			}
			defer fd.Close()
			for i := 0; i < c.Lines[0]; i++ {
				fmt.Fprintf(fd, "n=1|grp=g%d|interim case line=%d\n", i/7%2, i)
			}
			time.Sleep(1300 * time.Millisecond)
			for i := 0; i < 3; i++ {
				// (the first late line continues the group of the last line before the pause)
				fmt.Fprintf(fd, "n=1|grp=g%d|late line=%d\n", ((c.Lines[0]-1)/7+i)%2, i)
			}
		}()
	}
	for f := 1; f <= c.NFiles && !c.Interim; f++ {
		p := filepath.Join(dir, fmt.Sprintf("f%02d.log", f))
		var sb strings.Builder
		for i := 0; i < c.Lines[f-1]; i++ {
			fmt.Fprintf(&sb, "n=1|file=%d|line=%d\n", f, i)
		}
		content := sb.String()
		if c.NoFinalNL && f%2 == 0 {
			content = strings.TrimSuffix(content, "\n")
		}
		os.WriteFile(p, []byte(content), 0644)
		w.fileOf[p] = f
		res.Total += c.Lines[f-1]
	}
	if c.OnlyDir {
		os.MkdirAll(filepath.Join(dir, "archive.log"), 0755)
	}
	if c.Broken && !c.Interim {
		os.WriteFile(filepath.Join(dir, "f00.log.gz"), []byte{}, 0644)
		os.WriteFile(filepath.Join(dir, "f000.log.zst"), []byte("this is not zstd"), 0644)
		// ... a gzip file that breaks off in the middle (a copy interrupted, a disk that ran full): the reader delivers what
		// it can decode and then fails while lines are still on their way to the aggregator; its lines carry n=0, so
		// whatever part of them is counted, the sum over the readable files stays the same
		var zb bytes.Buffer
		zw := gzip.NewWriter(&zb)
		for i := 0; i < 4000; i++ {
			fmt.Fprintf(zw, "n=0|file=0|line=%d|%s\n", i, strconv.Itoa(i*7919))
		}
		zw.Close()
		os.WriteFile(filepath.Join(dir, "f0.log.gz"), zb.Bytes()[:zb.Len()*6/10], 0644)
		// ... and a path the server refuses outright (only regular files may be read): a sub directory of that name
		os.MkdirAll(filepath.Join(dir, "f0000.log.d"), 0755)
	}
	u, _ := user.New("vuser", "harness")
	if c.Interim {
		u, _ = user.New(config.ScheduleUser, "harness") // ordinary users may only open regular files; the input here is a FIFO
	}
	h := NewServerHandler(u, make(chan struct{}, c.Limit), make(chan struct{}, 4))
	c06Worlds.Store(c06Addr(h), w)
	defer c06Worlds.Delete(c06Addr(h))
	// consumer of the session: sums the counts of the AGGREGATE messages, answers .syn
	ended := make(chan struct{})
	var cmu sync.Mutex
	counted := 0
	go func() {
		buf := make([]byte, 64*1024)
		var pending []byte
		for {
			n, err := h.Read(buf)
			pending = append(pending, buf[:n]...)
			for {
				i := strings.IndexByte(string(pending), 0xAC)
				if i < 0 {
					break
				}
				msg := string(pending[:i])
				pending = pending[i+1:]
				if strings.HasPrefix(msg, ".syn close connection") {
					close(ended)
					return
				}
				if c.Interim {
					time.Sleep(3 * time.Millisecond)
				}
				if strings.HasPrefix(msg, "AGGREGATE|") {
					for _, part := range strings.Split(msg, "∥") {
						if strings.HasPrefix(part, "sum(n)≔") {
							v, _ := strconv.ParseFloat(strings.TrimPrefix(part, "sum(n)≔"), 64)
							cmu.Lock()
							counted += int(v)
							cmu.Unlock()
						}
					}
				}
			}
			if err != nil {
				return
			}
		}
	}()
	go func() {
		if c.Interim && c.Same {
			h.Write(c06Frame("map select sum(n),count($line) group by grp interval 1 logformat generickv"))
		} else if c.Interim {
			h.Write(c06Frame("map select sum(n),count($line) group by $line interval 1 logformat generickv"))
		} else {
			h.Write(c06Frame("map select sum(n),count($line) group by $hostname interval 3600 logformat generickv"))
		}
		// the aggregate object exists now: register it for the agg.* trace points
		if h.aggregate != nil {
			c06Worlds.Store(c06Addr(h.aggregate), w)
		}
		h.Write(c06Frame(fmt.Sprintf("cat:quiet=true %s regex:noop ", filepath.Join(dir, "*.log*"))))
	}()
	// ---- replay the behaviour.  The model's file numbers are bound to real readers as they show up (which reader wins
	// the limiter is the runtime's choice); a re-queue step is skipped when no re-queue goroutine exists (whether the
	// aggregator finds its current channel momentarily empty depends on the reader's speed and cannot be forced).
	bound := map[int]int{} // model file -> real file
	for _, st := range c.Sched {
		if c.Free {
			break
		}
		ok := false
		switch st.A {
		case "register":
			if rf, have := bound[st.F]; have {
				ok = w.release("register", rf, 400*time.Millisecond)
			} else {
				deadline := time.Now().Add(400 * time.Millisecond)
				for !ok && time.Now().Before(deadline) {
					w.mu.Lock()
					cand := 0
					for _, g := range w.parked {
						if g.kind == "register" {
							used := false
							for _, v := range bound {
								if v == g.file {
									used = true
								}
							}
							if !used {
								cand = g.file
								break
							}
						}
					}
					w.mu.Unlock()
					if cand != 0 {
						bound[st.F] = cand
						ok = w.release("register", cand, 50*time.Millisecond)
					} else {
						time.Sleep(200 * time.Microsecond)
					}
				}
			}
		case "requeue":
			if !w.release("requeue", 0, 40*time.Millisecond) {
				res.Skipped++
				continue
			}
			ok = true
		default:
			ok = w.release(st.A, st.F, 400*time.Millisecond)
		}
		if !ok {
			res.Diverged = fmt.Sprintf("step %d (%s %d): no goroutine reached that gate", res.Followed, st.A, st.F)
			break
		}
		res.Followed++
	}
	w.freeAll()
	select {
	case <-ended:
		res.Ended = true
	case <-time.After(12*time.Second + time.Duration(c.NFiles)*400*time.Millisecond): // the aggregator sleeps 100 ms whenever it rotates
	}
	if h.aggregate != nil {
		c06Worlds.Delete(c06Addr(h.aggregate))
	}
	h.Shutdown()
	cmu.Lock()
	res.Counted = counted
	cmu.Unlock()
	w.mu.Lock()
	res.Trace = append([]string{}, w.trace...)
	w.mu.Unlock()
	if len(res.Trace) > 400 {
		res.Trace = res.Trace[:400]
	}
	return
}

func TestC06Server(t *testing.T) {
	vInit("none")
	config.Server.MaxLineLength = 1024 * 1024
	c06Install()
	var cases []c06Case
	vReadJSON(t, "VERIF_CASES", &cases)
	base, _ := os.MkdirTemp("", "c06-")
	defer os.RemoveAll(base)
	results := make([]c06Result, len(cases))
	var wg sync.WaitGroup
	sem := make(chan struct{}, 12)
	for i := range cases {
		wg.Add(1)
		sem <- struct{}{}
		go func(i int) {
			defer wg.Done()
			defer func() { <-sem }()
			results[i] = c06Run(cases[i], base)
		}(i)
	}
	wg.Wait()
	vWriteJSON(t, "VERIF_OUT", results)
}
