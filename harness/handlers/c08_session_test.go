package handlers

// C08 harness (session level): for a sample of the TLC rule lists a real server session cats every request path
// and some globs; the file contents that come back must be exactly those of the files Ref allows.

import (
	"sync/atomic"
	"sync"
	"encoding/base64"
	"fmt"
	"os"
	"path/filepath"
	"sort"
	"strings"
	"syscall"
	"testing"
	"time"

	"github.com/mimecast/dtail/internal/config"
	user "github.com/mimecast/dtail/internal/user/server"
)

type c08sCase struct {
	Rules  []string `json:"rules"`  // concrete rule strings with ROOT placeholder
	Served []string `json:"served"` // abstract paths Ref serves
}

func c08sLayout(root string) {
	os.MkdirAll(filepath.Join(root, "pub/sub"), 0755)
	os.MkdirAll(filepath.Join(root, "priv"), 0755)
	for i, f := range []string{"pub/a.log", "pub/secret1.log", "priv/key.txt", "pub/sub/deep.log"} {
		content := "CONTENT-OF:" + f + "\nsecond line of " + f + "\n"
		if i%2 == 1 {
			content = strings.TrimSuffix(content, "\n") // some files end without a newline
		}
		os.WriteFile(filepath.Join(root, f), []byte(content), 0644)
	}
	os.Symlink("a.log", filepath.Join(root, "pub/link_a"))
	os.Symlink("../priv/key.txt", filepath.Join(root, "pub/link_out"))
	os.Symlink("../priv", filepath.Join(root, "pub/dlink"))
	os.Symlink("link_out", filepath.Join(root, "pub/chain"))
	os.Symlink("nowhere", filepath.Join(root, "pub/dangling"))
	syscall.Mkfifo(filepath.Join(root, "pub/fifo"), 0644)
}

var c08sN int64
var c08sCfg sync.RWMutex

// c08sSession cats one path/glob and returns the set of files whose content was disclosed.
func c08sSession(u *user.User, req string) (disclosed []string, problem string) {
	h := NewServerHandler(u, make(chan struct{}, 8), make(chan struct{}, 8))
	// the verdict must not depend on how the request is worded: command (cat / grep), and the output options a client
	// may send along (all of them are under the client's control, also on a remote server)
	form := int(atomic.AddInt64(&c08sN, 1))
	forms := []string{"cat:quiet=true %s regex:noop ", "cat:quiet=true:serverless=true %s regex:noop ", "cat:quiet=true:plain=true %s regex:noop ",
		"grep:quiet=true %s regex:default .", "grep:serverless=true:plain=true:quiet=true %s regex:default CONTENT|second", "cat:quiet=true:before=1:after=1 %s regex:noop "}
	payload := fmt.Sprintf(forms[form%len(forms)], req)
	// (the two directions of a session are served by separate goroutines in the server and in the serverless connector: a
	// command that ends the session at once waits inside Write for the close message to be read)
	go h.Write([]byte(fmt.Sprintf("protocol 4.1 base64 %s;", base64.StdEncoding.EncodeToString([]byte(payload)))))
	seen := map[string]bool{}
	buf := make([]byte, 64*1024)
	deadline := time.Now().Add(15 * time.Second)
	var pending []byte
	for time.Now().Before(deadline) {
		n, err := h.Read(buf)
		pending = append(pending, buf[:n]...)
		for {
			i := strings.IndexByte(string(pending), 0xAC)
			if i < 0 {
				break
			}
			msg := string(pending[:i])
			pending = pending[i+1:]
			if strings.HasPrefix(msg, ".syn close connection") {
				go h.Write([]byte("protocol 4.1 base64 " + base64.StdEncoding.EncodeToString([]byte(".ack close connection")) + ";"))
				// the server announced the end of the session: everything it wanted to send has been sent
				for k := range seen {
					disclosed = append(disclosed, k)
				}
				sort.Strings(disclosed)
				h.Shutdown()
				return
			}
			if j := strings.Index(msg, "CONTENT-OF:"); j >= 0 {
				seen[strings.TrimSpace(msg[j+len("CONTENT-OF:"):])] = true
			} else if j := strings.Index(msg, "second line of "); j >= 0 {
				seen[strings.TrimSpace(msg[j+len("second line of "):])] = true
			}
		}
		if err != nil {
			for k := range seen {
				disclosed = append(disclosed, k)
			}
			sort.Strings(disclosed)
			return
		}
	}
	h.Shutdown()
	return nil, "session did not end"
}

func TestC08Session(t *testing.T) {
	vInit("none")
	var cases []c08sCase
	vReadJSON(t, "VERIF_CASES", &cases)
	tmp, _ := os.MkdirTemp("", "c08s-")
	defer os.RemoveAll(tmp)
	root, _ := filepath.EvalSymlinks(tmp)
	root = filepath.Join(root, "root")
	c08sLayout(root)
	resolves := map[string]string{"pub/link_a": "pub/a.log", "pub/link_out": "priv/key.txt", "pub/dlink/key.txt": "priv/key.txt",
		"pub/chain": "priv/key.txt", "pub/../priv/key.txt": "priv/key.txt"}
	// request -> abstract paths it expands to (FIFO excluded from globs: opening it would block)
	requests := map[string][]string{
		"pub/a.log": {"pub/a.log"}, "pub/secret1.log": {"pub/secret1.log"}, "pub/link_a": {"pub/link_a"},
		"pub/link_out": {"pub/link_out"}, "pub/dlink/key.txt": {"pub/dlink/key.txt"}, "pub/chain": {"pub/chain"},
		"pub/sub": {"pub/sub"}, "pub/dangling": {"pub/dangling"}, "pub/../priv/key.txt": {"pub/../priv/key.txt"},
		"priv/key.txt": {"priv/key.txt"}, "pub/sub/deep.log": {"pub/sub/deep.log"},
		"pub/*.log": {"pub/a.log", "pub/secret1.log"}, "pub/l*": {"pub/link_a", "pub/link_out"},
		"pub/*/*": {"pub/dlink/key.txt", "pub/sub/deep.log"}, "p*/key.txt": {"priv/key.txt"}, "pub/c*": {"pub/chain"},
	}
	type bad struct {
		Rules     []string `json:"rules"`
		Request   string   `json:"request"`
		Disclosed []string `json:"disclosed"`
		Want      []string `json:"want"`
		Problem   string   `json:"problem"`
	}
	var bads []bad
	evals := 0
	// another user of the same server, allowed to read everything, keeps reading the files the tested user may not see:
	// what one session reads must never surface in another one
	stopAdmin := make(chan struct{})
	adminDone := make(chan struct{})
	go func() {
		defer close(adminDone)
		for {
			select {
			case <-stopAdmin:
				return
			default:
			}
			c08sCfg.RLock() // the rules (global configuration) are only replaced between two of these sessions
			if admin, err := user.New("c08admin", "harness"); err == nil {
				for _, f := range []string{"priv/key.txt", "pub/secret1.log", "pub/a.log"} {
					c08sSession(admin, root+"/"+f)
				}
			}
			c08sCfg.RUnlock()
		}
	}()
	defer func() { close(stopAdmin); <-adminDone }()
	for _, c := range cases {
		rules := []string{}
		for _, r := range c.Rules {
			rules = append(rules, strings.ReplaceAll(r, "ROOT", root))
		}
		c08sCfg.Lock()
		config.Server.Permissions.Default = rules
		config.Server.Permissions.Users = map[string][]string{"c08admin": {"^/.*"}}
		c08sCfg.Unlock()
		u, err := user.New("vuser", "harness")
		if err != nil {
			continue
		}
		served := map[string]bool{}
		for _, s := range c.Served {
			served[s] = true
		}
		for req, members := range requests {
			want := map[string]bool{}
			for _, m := range members {
				if served[m] {
					r := m
					if x, ok := resolves[m]; ok {
						r = x
					}
					want[r] = true
				}
			}
			wl := []string{}
			for k := range want {
				wl = append(wl, k)
			}
			sort.Strings(wl)
			full := root + "/" + req
			got, problem := c08sSession(u, full)
			evals++
			if problem != "" || strings.Join(got, "|") != strings.Join(wl, "|") {
				if len(bads) < 100 {
					bads = append(bads, bad{rules, req, got, wl, problem})
				}
			}
		}
		// a link that is re-pointed between two requests (log rotation's "current" link): every request is judged by what
		// the path resolves to at that moment
		hot := filepath.Join(root, "pub/hot")
		for step, target := range []string{"a.log", "../priv/key.txt", "a.log"} {
			os.Remove(hot)
			os.Symlink(target, hot)
			resolved := map[string]string{"a.log": "pub/a.log", "../priv/key.txt": "priv/key.txt"}[target]
			wl := []string{}
			if served[resolved] {
				wl = append(wl, resolved)
			}
			got, problem := c08sSession(u, hot)
			evals++
			if problem != "" || strings.Join(got, "|") != strings.Join(wl, "|") {
				if len(bads) < 100 {
					bads = append(bads, bad{rules, fmt.Sprintf("pub/hot -> %s (request %d of 3 for the same path)", target, step+1), got, wl, problem})
				}
			}
		}
		os.Remove(hot)
	}
	vWriteJSON(t, "VERIF_OUT", map[string]interface{}{"evaluations": evals, "bad": bads})
}
