package handlers

// C10 harness: every abstract command enumerated by TLC (spec/Dispatch.tla) is concretised (several byte-level
// representatives per class, chosen per seed) and written to a real ServerHandler while a second, well-behaved
// session keeps reading a file in the same process.  A panic in any goroutine kills the process, so the cases run in
// a child process (this test binary re-executed); when the child dies the parent learns from the progress markers
// which single command did it and restarts the child behind it.

import (
	"bufio"
	"encoding/base64"
	"encoding/json"
	"fmt"
	"math/rand"
	"os"
	"os/exec"
	"path/filepath"
	"strings"
	"sync"
	"testing"
	"time"

	"github.com/mimecast/dtail/internal/config"
	user "github.com/mimecast/dtail/internal/user/server"
)

type c10Cmd struct {
	Env   string `json:"env"`
	Word  string `json:"word"`
	Opts  string `json:"opts"`
	Nargs int    `json:"nargs"`
	Regex string `json:"regex"`
	Query string `json:"query"`
	File  string `json:"file"`
}

type c10Case struct {
	Cmd    c10Cmd `json:"cmd"`
	Crash  bool   `json:"crash"`
	Answer string `json:"answer"`
}

type c10Result struct {
	Index   int    `json:"index"`
	Wire    string `json:"wire"`
	Payload string `json:"payload"`
	Outcome string `json:"outcome"` // error | runs | closed | silent | crash
	Detail  string `json:"detail"`
	Ms      int64  `json:"ms"`
}

func c10Wire(c c10Cmd, dir string, rng *rand.Rand) (wire string, payload string) {
	file := map[string]string{"existing": filepath.Join(dir, "data.log"), "missing": filepath.Join(dir, "nosuch.log"),
		"directory": dir, "emptyglob": filepath.Join(dir, "*.nomatch"),
		// spellings: the separators are written by hand, filepath.Join would clean them away
		"glob": dir + "/sub/*.log", "globdir": dir + "/*/a.log", "dslashglob": dir + "//sub/*.log", "dotglob": dir + "/./sub/*.log",
		"dotdotglob": dir + "/sub/../sub/*.log", "dslashfile": dir + "//data.log", "trailslash": dir + "/sub/",
		"dslashglobdir": dir + "//*/a.log", "longmissing": dir + "/" + strings.Repeat("n", 300) + ".log"}[c.File]
	opts := map[string]string{"none": "", "empty": ":", "valid": ":quiet=true:plain=true", "context": ":before=1:after=1:max=2",
		"noeq": ":quiet", "nonint": []string{":max=x", ":before=1.5", ":after="}[rng.Intn(3)], "b64good": ":x=base64%Zm9v", "b64bad": ":x=base64%!!!",
		"b64bare": []string{":x=base64", ":quiet=base64", ":max=base64", ":before=base64%"}[rng.Intn(4)],
		"negbefore": ":before=-1:max=1", "hugebefore": []string{":before=99999999999:max=1", ":before=4611686018427387904:after=1"}[rng.Intn(2)]}[c.Opts]
	regex := map[string][]string{"default": {"regex:default", "line"}, "invert": {"regex:invert", "nomatch"}, "noop": {"regex:noop", ""},
		"wrongprefix": {"foo", "bar"}, "uncompilable": {"regex:default", []string{"(", "[a", "a{2,1}", "\\"}[rng.Intn(4)]},
		"noflag": {"regex:", "line"}, "bogusflag": {"regex:bogus,alsobogus", "line"}, "none": {},
		"flaglist_in": {"regex:invert,noop", "line 1"}, "flaglist_dn": {"regex:default,noop", "line"}, "flaglist_ni": {"regex:noop,invert", "line"},
		"flaglist_bdn": {"regex:bogus,default,noop", "line"}}[c.Regex]
	query := map[string]string{"valid": "select count($line) group by $hostname", "empty": "", "blank": " ", "lonebackquote": "select ` from x",
		"unknownkeyword": "frobnicate the logs", "truncated": "select count($line) from", "badlogformat": "select count($line) logformat nosuchformat",
		"unknownagg": "select median($x)",
		"orderkeyword1": "select count($line) from STATS order by limit 10", "orderkeyword2": "select count($line) rorder by interval 1",
		"orderkeyword3": "select count($line) order limit 10",
		"clausekeyword": []string{"select count($line) where group by $hostname", "select count($line) set group by $hostname", "select count($line) group by order by count($line)",
			"select count($line) from where $x eq 1", "select from STATS", "select count($line) limit outfile x.csv", "select count($line) outfile limit 3"}[rng.Intn(7)],
		"danglingwhere": []string{"select count($line) from STATS where $a == 1 and $b", "select count($line) where $a == 1 $b eq group by $a",
			"select count($line) where $a lt 2 $b", "select count($line) where $a eq 1 and $b ne", "select count($line) where $a eq 1, $b eq 2, $c"}[rng.Intn(5)],
		"quotedbackquote": []string{"select count($line) where $line contains \"`\"", "select count($line) set $x = \"`\" group by $hostname",
			"select count($line) where \"`\" eq $line"}[rng.Intn(3)],
		"quotedkeyword": []string{"select count($line) where $line eq \"limit\"", "select count($line) set $x = \"group\"", "select count($line) outfile \"select\""}[rng.Intn(3)],
		"interval0": "select count($line) group by $hostname interval 0", "intervalneg": "select count($line) group by $hostname interval -5",
		"intervalhuge": "select count($line) group by $hostname interval 9223372036854775807", "limit0": "select count($line) group by $hostname limit 0",
		"limitneg": "select count($line) group by $hostname limit -1", "rorderlimit1": "select count($line) group by $hostname rorder by count($line) limit 1",
		"setclause": "select count($line) group by $hostname set $x = maskdigits($line)",
		"manyselect": "select count($line),sum($goroutines),min($goroutines),max($goroutines),avg($goroutines),last($hostname),len($line) group by $hostname"}[c.Query]
	words := []string{}
	switch c.Word {
	case "cat", "grep", "tail":
		words = append(words, c.Word+opts)
		if c.Nargs >= 2 {
			words = append(words, file)
		}
		if c.Nargs >= 3 {
			words = append(words, regex...)
			for len(words) < c.Nargs {
				words = append(words, "extra")
			}
		}
	case "map":
		words = append(words, "map"+opts)
		if c.Query != "empty" {
			words = append(words, strings.Split(query, " ")...)
		}
	case ".ack":
		words = append(words, [][]string{{".ack"}, {".ack", "close"}, {".ack", "close", "connection"}, {".ack", "foo", "bar", "baz"}}[c.Nargs-1]...)
		words[0] += opts
	default:
		w := map[string]string{"health": "health", "unknown": []string{"frobnicate", "CAT", "timeout", "ls"}[rng.Intn(4)], "": ""}[c.Word]
		words = append(words, w+opts)
		for len(words) < c.Nargs {
			words = append(words, "arg")
		}
	}
	payload = strings.Join(words, " ")
	b64 := base64.StdEncoding.EncodeToString([]byte(payload))
	switch c.Env {
	case "ok":
		wire = "protocol 4.1 base64 " + b64 + ";"
	case "oldversion":
		wire = "protocol " + []string{"3", "2", "4.0"}[rng.Intn(3)] + " base64 " + b64 + ";"
	case "newerversion":
		wire = "protocol 5.0 base64 " + b64 + ";"
	case "noprotocol":
		wire = []string{"hello 4.1 base64 " + b64 + ";", "cat /etc/passwd now;", "\x00\x01\x02 \xff\xfe x y;"}[rng.Intn(3)]
	case "toofewwords":
		wire = []string{"protocol 4.1;", "protocol;", "x;"}[rng.Intn(3)]
	case "nobase64word":
		wire = []string{"protocol 4.1 plain " + b64 + ";", "protocol 4.1 base64 " + b64 + " trailing;", "protocol 4.1 base64;"}[rng.Intn(3)]
	case "badbase64":
		wire = "protocol 4.1 base64 " + []string{"!!!notbase64", b64[:len(b64)/2] + "*", "===="}[rng.Intn(3)] + ";"
	case "empty":
		wire = []string{";", " ;", ";;"}[rng.Intn(3)]
	}
	return
}

// child: run cases start.. of the case file, print "DONE <i> <outcome-json>" after each
func TestC10Child(t *testing.T) {
	if os.Getenv("VERIF_C10_CHILD") == "" {
		t.Skip("child mode only")
	}
	vInit("none")
	config.Server.MaxLineLength = 1024 * 1024
	var cases []c10Case
	vReadJSON(t, "VERIF_CASES", &cases)
	var start int
	fmt.Sscanf(os.Getenv("VERIF_C10_START"), "%d", &start)
	dir := os.Getenv("VERIF_C10_DIR")
	u, _ := user.New("vuser", "harness")
	cat := make(chan struct{}, 4)
	tail := make(chan struct{}, 50)
	w := bufio.NewWriter(os.Stdout)
	// the well-behaved second session: cats a file of 5000 lines slowly while the others misbehave
	good := NewServerHandler(u, cat, tail)
	good.Write(c10Frame(fmt.Sprintf("cat:quiet=true %s regex:noop ", filepath.Join(dir, "big.log"))))
	goodLines := 0
	goodEnded := false
	goodPump := func(budget int) {
		buf := make([]byte, 64*1024)
		for i := 0; i < budget && !goodEnded; i++ {
			n, err := good.Read(buf)
			goodLines += strings.Count(string(buf[:n]), "REMOTE|")
			if strings.Contains(string(buf[:n]), ".syn close") || err != nil {
				goodEnded = true
			}
		}
	}
	end := len(cases)
	fmt.Sscanf(os.Getenv("VERIF_C10_END"), "%d", &end)
	for i := start; i < end; i++ {
		rng := rand.New(rand.NewSource(vSeed()*1000003 + int64(i)))
		wire, payload := c10Wire(cases[i].Cmd, dir, rng)
		fmt.Fprintf(w, "START %d\n", i)
		w.Flush()
		t0 := time.Now()
		h := NewServerHandler(u, cat, tail)
		// Write blocks for up to 5 s when the command ends the session synchronously (the handler waits for the
		// client's .ack inside Write), so it gets its own goroutine like io.Copy in the real server
		go h.Write([]byte(wire))
		res := c10Result{Index: i, Wire: wire, Payload: payload, Outcome: "silent"}
		data := make(chan string, 64)
		go func() { // single reader of this session
			buf := make([]byte, 64*1024)
			for {
				n, err := h.Read(buf)
				if n > 0 {
					data <- string(buf[:n])
				}
				if err != nil {
					close(data)
					return
				}
			}
		}()
		deadline := time.After(700 * time.Millisecond)
		var got strings.Builder
	loop:
		for {
			quiet := 700 * time.Millisecond
			if got.Len() > 0 {
				quiet = 100 * time.Millisecond // answered (error message or data): wait until it goes quiet
			}
			select {
			case d, ok := <-data:
				if !ok {
					break loop
				}
				got.WriteString(d)
				if strings.Contains(got.String(), ".syn close connection") {
					break loop
				}
			case <-time.After(quiet):
				break loop
			case <-deadline:
				break loop
			}
		}
		s := got.String()
		switch {
		case strings.Contains(s, "ERROR") || strings.Contains(s, "WARN") || strings.Contains(s, "SERVER|"):
			res.Outcome = "error"
		case strings.Contains(s, "REMOTE|") || strings.Contains(s, "AGGREGATE|"):
			res.Outcome = "runs"
		case strings.Contains(s, ".syn close connection"):
			res.Outcome = "closed"
		}
		h.Shutdown()
		goodPump(2)
		res.Ms = time.Since(t0).Milliseconds()
		js, _ := json.Marshal(res)
		fmt.Fprintf(w, "DONE %d %s\n", i, js)
		w.Flush()
	}
	goodPump(100000)
	fmt.Fprintf(w, "GOOD %d %v\n", goodLines, goodEnded)
	w.Flush()
}

func c10Frame(payload string) []byte {
	return []byte("protocol 4.1 base64 " + base64.StdEncoding.EncodeToString([]byte(payload)) + ";")
}

func TestC10Parent(t *testing.T) {
	var cases []c10Case
	vReadJSON(t, "VERIF_CASES", &cases)
	dir, _ := os.MkdirTemp("", "c10-")
	defer os.RemoveAll(dir)
	var sb strings.Builder
	for i := 0; i < 30; i++ {
		fmt.Fprintf(&sb, "line %d of the data file\n", i)
	}
	os.WriteFile(filepath.Join(dir, "data.log"), []byte(sb.String()), 0644)
	sb.Reset()
	for i := 0; i < 5000; i++ {
		fmt.Fprintf(&sb, "big line %d\n", i)
	}
	os.WriteFile(filepath.Join(dir, "big.log"), []byte(sb.String()), 0644)
	os.MkdirAll(filepath.Join(dir, "sub"), 0755)
	os.MkdirAll(filepath.Join(dir, "sub2"), 0755)
	for _, f := range []string{"sub/a.log", "sub/b.log", "sub2/a.log"} {
		os.WriteFile(filepath.Join(dir, f), []byte("line 1 of "+f+"\nline 2\n"), 0644)
	}
	results := make([]c10Result, len(cases))
	for i := range results {
		results[i] = c10Result{Index: i, Outcome: "notrun"}
	}
	var mu sync.Mutex
	goodReports := []string{}
	children := 0
	workers := 12
	chunk := (len(cases) + workers - 1) / workers
	var wg sync.WaitGroup
	for wk := 0; wk < workers; wk++ {
		lo, hi := wk*chunk, (wk+1)*chunk
		if hi > len(cases) {
			hi = len(cases)
		}
		if lo >= hi {
			continue
		}
		wg.Add(1)
		go func(lo, hi int) {
			defer wg.Done()
			start := lo
			for n := 0; start < hi && n < 200; n++ {
				mu.Lock()
				children++
				mu.Unlock()
				cmd := exec.Command(os.Args[0], "-test.run", "TestC10Child", "-test.timeout", "1200s")
				cmd.Env = append(os.Environ(), "VERIF_C10_CHILD=1", fmt.Sprintf("VERIF_C10_START=%d", start),
					fmt.Sprintf("VERIF_C10_END=%d", hi), "VERIF_C10_DIR="+dir)
				out, _ := cmd.CombinedOutput()
				last := start - 1
				started := -1
				tail := ""
				for _, l := range strings.Split(string(out), "\n") {
					switch {
					case strings.HasPrefix(l, "START "):
						fmt.Sscanf(l, "START %d", &started)
					case strings.HasPrefix(l, "DONE "):
						var idx int
						fmt.Sscanf(l, "DONE %d", &idx)
						js := l[strings.Index(l, "{"):]
						json.Unmarshal([]byte(js), &results[idx])
						last = idx
					case strings.HasPrefix(l, "GOOD "):
						mu.Lock()
						goodReports = append(goodReports, l)
						mu.Unlock()
					case (strings.HasPrefix(l, "panic:") || strings.HasPrefix(l, "fatal error:")) && tail == "":
						tail = l
					}
				}
				if last >= hi-1 {
					break
				}
				if started > last {
					// the child died while (or shortly after) running case 'started'
					rng := rand.New(rand.NewSource(vSeed()*1000003 + int64(started)))
					wire, payload := c10Wire(cases[started].Cmd, dir, rng)
					results[started] = c10Result{Index: started, Wire: wire, Payload: payload, Outcome: "crash", Detail: tail}
					start = started + 1
				} else {
					// died between cases (a delayed panic of the previous command): attribute it to the last finished one
					if last >= lo {
						results[last].Outcome = "crash"
						results[last].Detail = "delayed: " + tail
					}
					start = last + 1
				}
			}
		}(lo, hi)
	}
	wg.Wait()
	vWriteJSON(t, "VERIF_OUT", map[string]interface{}{"results": results, "children": children, "good": goodReports})
}

// Sequences of commands in one session (the single commands above start from a fresh session each): a mapreduce query
// followed by reads whose reader comes back - a followed file that cannot be decoded (the retry loop of read() runs every
// 2 s), a follow that stops after max=1 while the file goes on growing, a second map command, a cat after a tail.  The
// process must survive every sequence (this test runs them in-process: a panic in a server goroutine ends the run and
// the driver reports the death message).
func TestC10Sequences(t *testing.T) {
	vInit("none")
	config.Server.MaxLineLength = 1024 * 1024
	dir, _ := os.MkdirTemp("", "c10s-")
	defer os.RemoveAll(dir)
	u, _ := user.New("vuser", "harness")
	cat := make(chan struct{}, 4)
	tail := make(chan struct{}, 50)
	plain := filepath.Join(dir, "grow.log")
	notgz := filepath.Join(dir, "broken.log.gz")
	os.WriteFile(plain, []byte("INFO|1002-071143|1|x.go:1|8|13|7|0.21|471h0m21s|MAPREDUCE:STATS|a=1\n"), 0644)
	os.WriteFile(notgz, []byte("this is not gzip data\nline 2\n"), 0644)
	mapq := "map select count($line),avg(a) from STATS group by $hostname interval 1"
	seqs := [][]string{
		{mapq, fmt.Sprintf("tail:quiet=true %s regex:noop ", notgz)},
		{mapq, fmt.Sprintf("tail:quiet=true:max=1 %s regex:noop ", plain)},
		{mapq, fmt.Sprintf("tail:quiet=true %s regex:noop ", plain), mapq},
		{fmt.Sprintf("tail:quiet=true %s regex:noop ", plain), mapq, fmt.Sprintf("cat:quiet=true %s regex:noop ", plain)},
		{mapq, fmt.Sprintf("cat:quiet=true %s regex:noop ", notgz), fmt.Sprintf("tail:quiet=true %s regex:noop ", filepath.Join(dir, "*.log*"))},
	}
	var done []string
	for si, seq := range seqs {
		h := NewServerHandler(u, cat, tail)
		stop := make(chan struct{})
		go func() { // reader of the session
			buf := make([]byte, 64*1024)
			for {
				select {
				case <-stop:
					return
				default:
				}
				if _, err := h.Read(buf); err != nil {
					return
				}
			}
		}()
		for _, cmd := range seq {
			go h.Write(c10Frame(cmd))
			time.Sleep(150 * time.Millisecond)
		}
		// the followed file grows while the session runs; 4.6 s cover two rounds of the 2 s retry loop
		for k := 0; k < 23; k++ {
			if f, err := os.OpenFile(plain, os.O_APPEND|os.O_WRONLY, 0644); err == nil {
				fmt.Fprintf(f, "INFO|1002-071143|1|x.go:1|8|13|7|0.21|471h0m21s|MAPREDUCE:STATS|a=%d\n", k)
				f.Close()
			}
			time.Sleep(200 * time.Millisecond)
		}
		h.Shutdown()
		close(stop)
		time.Sleep(300 * time.Millisecond)
		done = append(done, fmt.Sprintf("sequence %d survived", si+1))
	}
	vWriteJSON(t, "VERIF_OUT", map[string]interface{}{"sequences": len(seqs), "done": done})
}
