package handlers

// C09 harness, health session: the health user's handler answers only the health command; no other command
// word makes it return file content.

import (
	"encoding/base64"
	"fmt"
	"os"
	"path/filepath"
	"strings"
	"testing"
	"time"

	"github.com/mimecast/dtail/internal/config"
	user "github.com/mimecast/dtail/internal/user/server"
)

func TestC09Health(t *testing.T) {
	vInit("none")
	dir, _ := os.MkdirTemp("", "c09h-")
	defer os.RemoveAll(dir)
	p := filepath.Join(dir, "secret.log")
	os.WriteFile(p, []byte("TOP-SECRET-LINE\n"), 0644)
	u, err := user.New(config.HealthUser, "127.0.0.1:1")
	if err != nil {
		t.Fatal(err)
	}
	type res struct {
		Cmd     string `json:"cmd"`
		Output  string `json:"output"`
		OK      bool   `json:"ok"`
		Content bool   `json:"content"`
		Ended   bool   `json:"ended"`
	}
	var out []res
	for _, cmd := range []string{"health", "cat", "grep", "tail", "map", ".ack", "other", "cat:plain=true", "health extra args"} {
		h := NewHealthHandler(u)
		payload := cmd
		switch strings.Split(cmd, ":")[0] {
		case "cat", "grep", "tail":
			payload = fmt.Sprintf("%s %s regex:noop ", cmd, p)
		case "map":
			payload = "map select count($line) group by $hostname"
		case ".ack":
			payload = ".ack close connection"
		}
		// like the server's two copy loops: the command direction runs beside the reading direction (a handler
		// may hold Write until the client has read what is queued)
		go h.Write([]byte(fmt.Sprintf("protocol 4.1 base64 %s;", base64.StdEncoding.EncodeToString([]byte(payload)))))
		var sb strings.Builder
		buf := make([]byte, 32*1024)
		deadline := time.Now().Add(8 * time.Second)
		r := res{Cmd: cmd}
		for time.Now().Before(deadline) {
			n, err := h.Read(buf)
			sb.Write(buf[:n])
			if strings.Contains(sb.String(), ".syn close connection") {
				go h.Write([]byte("protocol 4.1 base64 " + base64.StdEncoding.EncodeToString([]byte(".ack close connection")) + ";"))
				r.Ended = true
				break
			}
			if err != nil {
				r.Ended = true
				break
			}
		}
		h.Shutdown()
		r.Output = sb.String()
		for _, m := range strings.Split(r.Output, "\xac") {
			f := strings.Split(m, "|")
			if f[len(f)-1] == "OK" {
				r.OK = true
			}
		}
		r.Content = strings.Contains(r.Output, "TOP-SECRET-LINE")
		out = append(out, r)
	}
	vWriteJSON(t, "VERIF_OUT", out)
}
