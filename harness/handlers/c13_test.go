package handlers

// C13 harness: replays TLC-generated limiter schedules into real ServerHandlers sharing one
// limiter channel, observes (hook-free) len(limiter) and the files held open in /proc/self/fd at
// every quiescent point, and records the vhook trace of every run for trace validation by TLC.

import (
	"encoding/base64"
	"fmt"
	"math/rand"
	"os"
	"path/filepath"
	"strings"
	"sync"
	"testing"
	"time"

	"github.com/mimecast/dtail/internal/config"
	user "github.com/mimecast/dtail/internal/user/server"
)

type c13Step struct {
	A  string `json:"a"`
	ID int    `json:"id"`
}

type c13Case struct {
	ID     int       `json:"id"`
	Cap    int       `json:"cap"`
	Mode   string    `json:"mode"` // cat | grep | tail
	SessOf []int     `json:"sessof"` // index r-1 -> session
	Steps  []c13Step `json:"steps"`
	Lines  int       `json:"lines"`
	Fails  []int     `json:"fails"` // reads whose file cannot be decoded (a .gz that is not gzip)
	Names  int64     `json:"names"` // seed for the choice of file names
	Glob   bool      `json:"glob"`  // the reads of a session are the files of ONE command (a glob), entered together
}

type c13Obs struct {
	Tokens  int `json:"tokens"`
	Open    int `json:"open"`
	Waiting int `json:"waiting"`
	Retry   int `json:"retrying"` // reads whose file the harness rotated away and that have not ended: they keep their slot
}

type c13Result struct {
	ID        int                      `json:"id"`
	Obs       []c13Obs                 `json:"obs"` // observation before each step, and the final one
	MaxOpen   int                      `json:"maxopen"`
	Trace     []map[string]interface{} `json:"trace"`
	Delivered map[string]int           `json:"delivered"` // read -> lines delivered to the consumer
	Stuck     []int                    `json:"stuck"`     // reads that never exited
	Hung      []int                    `json:"hung"`      // sessions whose Shutdown() did not return within 5 s
	Problem   string                   `json:"problem"`   // harness-level trouble => inconclusive
	Diverged  string                   `json:"diverged"`  // the real run left the TLC behaviour (e.g. another waiter got the slot)
}

type c13World struct {
	c        c13Case
	dir      string
	limiter  chan struct{}
	other    chan struct{}
	sess     map[int]*ServerHandler
	files    map[int]string // read -> path
	readOf   map[string]int // path -> read
	rec      *vRecorder
	drain    map[int]bool
	mu       sync.Mutex
	deliv    map[string]int
	wg       sync.WaitGroup
	cancelld map[int]bool
	nameOf   map[string]int
	rotated  map[int]bool
}

var c13Registry sync.Map // path -> *c13World

func c13Command(mode, path string) []byte {
	payload := fmt.Sprintf("%s:quiet=true %s regex:noop ", mode, path)
	return []byte(fmt.Sprintf("protocol 4.1 base64 %s;", base64.StdEncoding.EncodeToString([]byte(payload))))
}

func (w *c13World) openCount() int {
	ents, err := os.ReadDir("/proc/self/fd")
	if err != nil {
		return -1
	}
	n := 0
	for _, e := range ents {
		if l, err := os.Readlink("/proc/self/fd/" + e.Name()); err == nil {
			if _, ok := w.readOf[l]; ok {
				n++
			}
		}
	}
	return n
}

// isOpen: a deleted file shows up in /proc/self/fd as "<path> (deleted)"
func (w *c13World) isOpen(path string) bool {
	ents, _ := os.ReadDir("/proc/self/fd")
	for _, e := range ents {
		if l, err := os.Readlink("/proc/self/fd/" + e.Name()); err == nil {
			if l == path || l == path+" (deleted)" {
				return true
			}
		}
	}
	return false
}

// state of a read derived from the recorded events
func (w *c13World) readState() map[int]string {
	st := map[int]string{}
	for _, e := range w.rec.snapshot() {
		if len(e.Args) < 2 {
			continue
		}
		p, _ := e.Args[1].(string)
		r, ok := w.readOf[p]
		if !ok || !strings.HasPrefix(e.Point, "limiter.") {
			continue
		}
		st[r] = strings.TrimPrefix(e.Point, "limiter.")
	}
	return st
}

func (w *c13World) settle() {
	// quiescence: no new trace event for a while
	last := -1
	stable := 0
	for i := 0; i < 4000; i++ {
		n := len(w.rec.snapshot())
		if n == last {
			stable++
			if stable >= 12 {
				return
			}
		} else {
			stable = 0
			last = n
		}
		time.Sleep(2 * time.Millisecond)
	}
}

func (w *c13World) waitFor(r int, states ...string) bool {
	deadline := time.Now().Add(20 * time.Second)
	for time.Now().Before(deadline) {
		st := w.readState()[r]
		for _, s := range states {
			if st == s {
				return true
			}
		}
		time.Sleep(time.Millisecond)
	}
	return false
}

// observe: a reading of len(limiter) and of the files open that does not fit together (a slot taken, its file not open yet)
// is repeated for a while - a goroutine may simply not have run yet on a loaded machine; a leaked or stolen slot stays wrong
func (w *c13World) observe() c13Obs {
	o := w.observe1()
	for dl := time.Now().Add(2 * time.Second); !(o.Open <= o.Tokens && o.Tokens <= o.Open+o.Retry) && time.Now().Before(dl); {
		time.Sleep(10 * time.Millisecond)
		o = w.observe1()
	}
	return o
}

func (w *c13World) observe1() c13Obs {
	waiting := 0
	for _, s := range w.readState() {
		if s == "wait" {
			waiting++
		}
	}
	retry := 0
	st := w.readState()
	for r := range w.rotated {
		if s := st[r]; s == "acquired" {
			retry++
		}
	}
	return c13Obs{Tokens: len(w.limiter), Open: w.openCount(), Waiting: waiting, Retry: retry}
}

func (w *c13World) startDrain(s int) {
	w.mu.Lock()
	if w.drain[s] {
		w.mu.Unlock()
		return
	}
	w.drain[s] = true
	w.mu.Unlock()
	h := w.sess[s]
	w.wg.Add(1)
	go func() {
		defer w.wg.Done()
		buf := make([]byte, 64*1024)
		var pending []byte
		for {
			n, err := h.Read(buf)
			if n > 0 {
				pending = append(pending, buf[:n]...)
				for {
					i := strings.IndexByte(string(pending), 0xAC)
					if i < 0 {
						break
					}
					msg := string(pending[:i])
					pending = pending[i+1:]
					if strings.HasPrefix(msg, ".syn close connection") {
						go h.Write([]byte("protocol 4.1 base64 " + base64.StdEncoding.EncodeToString([]byte(".ack close connection")) + ";"))
						continue
					}
					f := strings.SplitN(msg, "|", 6)
					if len(f) == 6 && f[0] == "REMOTE" {
						w.mu.Lock()
						w.deliv[f[4]]++
						w.mu.Unlock()
					}
				}
			}
			if err != nil {
				return
			}
		}
	}()
}

func c13Run(c c13Case, base string) (res c13Result) {
	res.ID = c.ID
	dir := filepath.Join(base, fmt.Sprintf("case%d", c.ID))
	os.MkdirAll(dir, 0755)
	defer os.RemoveAll(dir)
	w := &c13World{c: c, dir: dir, sess: map[int]*ServerHandler{}, files: map[int]string{}, readOf: map[string]int{},
		drain: map[int]bool{}, deliv: map[string]int{}, cancelld: map[int]bool{}, rotated: map[int]bool{}}
	w.limiter = make(chan struct{}, c.Cap)
	w.other = make(chan struct{}, 64)
	w.rec = newRecorder()
	nlines := c.Lines
	if nlines == 0 {
		nlines = 400
	}
	rng := rand.New(rand.NewSource(c.Names))
	dash := 1 + rng.Intn(len(c.SessOf)+1) // at most one read gets the file name "-"
	fails := map[int]bool{}
	for _, f := range c.Fails {
		fails[f] = true
	}
	w.nameOf = map[string]int{}
	for r := 1; r <= len(c.SessOf); r++ {
		name := fmt.Sprintf("r%d_%s", r, []string{"x.log", "y.txt", "z", "caf\u00e9.log"}[rng.Intn(4)])
		if r == dash {
			name = "-"
		}
		if fails[r] {
			name = fmt.Sprintf("r%d_broken.log.gz", r)
		}
		sub := fmt.Sprintf("d%d", r)
		if c.Glob {
			sub = fmt.Sprintf("g%d", c.SessOf[r-1]) // one directory per session: its command is "<dir>/*"
			if name == "-" {
				name = fmt.Sprintf("r%d_dash.log", r)
			}
		}
		os.MkdirAll(filepath.Join(dir, sub), 0755)
		p := filepath.Join(dir, sub, name)
		w.nameOf[name] = r
		var sb strings.Builder
		for i := 0; i < nlines; i++ {
			fmt.Fprintf(&sb, "read %d line %d\n", r, i)
		}
		os.WriteFile(p, []byte(sb.String()), 0644)
		w.files[r] = p
		w.readOf[p] = r
		c13Registry.Store(p, w)
	}
	defer func() {
		for p := range w.readOf {
			c13Registry.Delete(p)
		}
	}()
	u, err := user.New("vuser", "harness")
	if err != nil {
		res.Problem = err.Error()
		return
	}
	for _, s := range c.SessOf {
		if _, ok := w.sess[s]; !ok {
			if c.Mode == "tail" {
				w.sess[s] = NewServerHandler(u, w.other, w.limiter)
			} else {
				w.sess[s] = NewServerHandler(u, w.limiter, w.other)
			}
		}
	}
	stop := make(chan struct{})
	var smu sync.Mutex
	go func() { // sampler: maximum number of this case's files open at any instant
		for {
			select {
			case <-stop:
				return
			default:
			}
			// /proc/self/fd cannot be read atomically: an excess only counts when three consecutive scans agree
			n := w.openCount()
			if n > c.Cap {
				for k := 0; k < 2 && n > c.Cap; k++ {
					if m := w.openCount(); m < n {
						n = m
					}
				}
			}
			smu.Lock()
			if n > res.MaxOpen {
				res.MaxOpen = n
			}
			smu.Unlock()
			time.Sleep(time.Millisecond)
		}
	}()
	entered := map[int]bool{}
	globbed := map[int]bool{}
	ev := func(a string, id int) {
		w.rec.add("harness."+a, nil, fmt.Sprintf("#%d", id))
	}
	for _, st := range c.Steps {
		if res.Diverged != "" {
			break
		}
		res.Obs = append(res.Obs, w.observe())
		switch st.A {
		case "enter":
			entered[st.ID] = true
			if !c.Glob {
				w.sess[c.SessOf[st.ID-1]].Write(c13Command(c.Mode, w.files[st.ID]))
			} else if s := c.SessOf[st.ID-1]; !globbed[s] {
				// one command for all files of the session: they reach the limiter together, in any order
				globbed[s] = true
				w.sess[s].Write(c13Command(c.Mode, filepath.Join(dir, fmt.Sprintf("g%d", s), "*")))
			}
			if !w.waitFor(st.ID, "acquired", "wait", "cancelled", "relbegin", "relend", "exit") {
				res.Problem = fmt.Sprintf("read %d never reached the limiter", st.ID)
			}
			if cur := w.readState()[st.ID]; cur != "wait" && (w.cancelld[c.SessOf[st.ID-1]] || fails[st.ID]) {
				// a read of an already cancelled session, or of a broken file, ends by itself once admitted
				if !w.waitFor(st.ID, "exit") {
					res.Stuck = append(res.Stuck, st.ID)
				}
			}
		case "cancel":
			ev("cancel", st.ID)
			w.cancelld[st.ID] = true
			if !c13Shutdown(w.sess[st.ID]) {
				res.Hung = append(res.Hung, st.ID)
			}
			for r := range entered {
				if c.SessOf[r-1] == st.ID {
					if !w.waitFor(r, "exit") {
						res.Stuck = append(res.Stuck, r)
					}
				}
			}
		case "rotate":
			// the followed file goes away: the reader notices at its next truncation check (every 3 s), closes the
			// file and read() starts its retry loop - the slot stays taken, no file is open
			if cur := w.readState()[st.ID]; cur != "acquired" {
				res.Diverged = fmt.Sprintf("rotate(%d) not possible: read is in state %q", st.ID, cur)
				continue
			}
			os.Remove(w.files[st.ID])
			gone := false
			for dl := time.Now().Add(8 * time.Second); time.Now().Before(dl); time.Sleep(20 * time.Millisecond) {
				if !w.isOpen(w.files[st.ID]) {
					gone = true
					break
				}
			}
			if !gone {
				res.Problem = fmt.Sprintf("the reader of read %d did not notice the removal of its file", st.ID)
			}
			w.rotated[st.ID] = true
			w.rec.add("harness.rotate", nil, w.files[st.ID])
		case "finish":
			if cur := w.readState()[st.ID]; cur != "acquired" {
				res.Diverged = fmt.Sprintf("finish(%d) not possible: read is in state %q", st.ID, cur)
				continue
			}
			w.startDrain(c.SessOf[st.ID-1])
			if !w.waitFor(st.ID, "exit") {
				res.Stuck = append(res.Stuck, st.ID)
			}
		}
		w.settle()
	}
	res.Obs = append(res.Obs, w.observe())
	// epilogue (not part of the model behaviour): drain every session that was not cancelled so that
	// every admitted read must complete - "each proceeds once a running read finishes"
	if c.Mode != "tail" {
		for s := range w.sess {
			if !w.cancelld[s] {
				w.startDrain(s)
			}
		}
		for r := range entered {
			if !w.cancelld[c.SessOf[r-1]] {
				if !w.waitFor(r, "exit") {
					res.Stuck = append(res.Stuck, r)
				}
			}
		}
	}
	for id, h := range w.sess {
		if !c13Shutdown(h) {
			res.Hung = append(res.Hung, id)
		}
	}
	w.settle()
	close(stop)
	smu.Lock()
	smu.Unlock()
	res.Delivered = map[string]int{}
	w.mu.Lock()
	for k, v := range w.deliv {
		res.Delivered[fmt.Sprintf("%d", w.nameOf[k])] += v
	}
	w.mu.Unlock()
	for _, e := range w.rec.snapshot() {
		m := map[string]interface{}{"ev": strings.TrimPrefix(strings.TrimPrefix(e.Point, "limiter."), "harness.")}
		if len(e.Args) >= 2 {
			if p, ok := e.Args[1].(string); ok {
				if r, ok := w.readOf[p]; ok {
					m["r"] = r
				} else if strings.HasPrefix(p, "#") {
					var s int
					fmt.Sscanf(p, "#%d", &s)
					m["s"] = s
				}
			}
		}
		if len(e.Args) >= 3 {
			m["took"] = e.Args[2]
		}
		res.Trace = append(res.Trace, m)
	}
	return
}

func TestC13Replay(t *testing.T) {
	vInit("none")
	config.Server.MaxLineLength = 1024 * 1024
	var cases []c13Case
	vReadJSON(t, "VERIF_CASES", &cases)
	base, _ := os.MkdirTemp("", "c13-")
	defer os.RemoveAll(base)
	// one global hook handler dispatching by file path to the world of the case
	installC13Dispatch()
	results := make([]c13Result, len(cases))
	par := 12
	sem := make(chan struct{}, par)
	var wg sync.WaitGroup
	for i := range cases {
		wg.Add(1)
		sem <- struct{}{}
		go func(i int) {
			defer wg.Done()
			defer func() { <-sem }()
			results[i] = c13Run(cases[i], base)
		}(i)
	}
	wg.Wait()
	vWriteJSON(t, "VERIF_OUT", results)
}

func installC13Dispatch() {
	vhookInstall(func(point string, kv ...interface{}) {
		if len(kv) < 2 {
			return
		}
		p, ok := kv[1].(string)
		if !ok {
			return
		}
		if w, ok := c13Registry.Load(p); ok {
			w.(*c13World).rec.add(point, kv...)
		}
	})
}

// c13Shutdown ends a session the way server.go does when the connection is gone; a Shutdown() that does not come back
// (it must not wait for a client that is no longer there) is reported instead of hanging the replay
func c13Shutdown(h interface{ Shutdown() }) bool {
	done := make(chan struct{})
	go func() { h.Shutdown(); close(done) }()
	select {
	case <-done:
		return true
	case <-time.After(5 * time.Second):
		return false
	}
}
