package PKG

// Shared helpers of the verification harness. This file is overlaid (go test -overlay)
// into several dtail packages; the package clause is rewritten by the driver.

import (
	"context"
	"encoding/json"
	"fmt"
	"os"
	"sync"
	"testing"

	"github.com/mimecast/dtail/internal/config"
	"github.com/mimecast/dtail/internal/io/dlog"
	"github.com/mimecast/dtail/internal/source"
	"github.com/mimecast/dtail/internal/vhook"
)

var vInitOnce sync.Once

// vInit initialises dtail's global configuration and loggers the way the cmd/ mains do.
func vInit(logger string) {
	vInitOnce.Do(func() {
		if os.Getenv("DTAIL_HOSTNAME_OVERRIDE") == "" {
			os.Setenv("DTAIL_HOSTNAME_OVERRIDE", "vhost")
		}
		args := config.Args{ConfigFile: "none", Logger: logger, LogLevel: "error", NoColor: true}
		config.Setup(source.Client, &args, nil)
		var wg sync.WaitGroup
		wg.Add(1)
		dlog.Start(context.Background(), &wg, source.Client)
	})
}

// vEvent is one recorded trace point.
type vEvent struct {
	Seq   int           `json:"seq"`
	Point string        `json:"ev"`
	Args  []interface{} `json:"-"`
}

// vRecorder records trace points with a process-wide sequence number taken under one mutex.
type vRecorder struct {
	mu     sync.Mutex
	seq    int
	events []vEvent
	cond   *sync.Cond
	filter func(point string, kv []interface{}) bool
}

func newRecorder() *vRecorder {
	r := &vRecorder{}
	r.cond = sync.NewCond(&r.mu)
	return r
}

func (r *vRecorder) install() {
	vhook.Install(func(point string, kv ...interface{}) { r.add(point, kv...) })
}

func (r *vRecorder) add(point string, kv ...interface{}) {
	r.mu.Lock()
	if r.filter == nil || r.filter(point, kv) {
		r.seq++
		r.events = append(r.events, vEvent{Seq: r.seq, Point: point, Args: kv})
		r.cond.Broadcast()
	}
	r.mu.Unlock()
}

func (r *vRecorder) snapshot() []vEvent {
	r.mu.Lock()
	defer r.mu.Unlock()
	out := make([]vEvent, len(r.events))
	copy(out, r.events)
	return out
}

func vReadJSON(t *testing.T, env string, into interface{}) {
	path := os.Getenv(env)
	if path == "" {
		t.Fatalf("%s not set", env)
	}
	data, err := os.ReadFile(path)
	if err != nil {
		t.Fatal(err)
	}
	if err := json.Unmarshal(data, into); err != nil {
		t.Fatalf("%s: %v", path, err)
	}
}

func vWriteJSON(t *testing.T, env string, v interface{}) {
	path := os.Getenv(env)
	if path == "" {
		t.Fatalf("%s not set", env)
	}
	data, err := json.Marshal(v)
	if err != nil {
		t.Fatal(err)
	}
	if err := os.WriteFile(path, data, 0644); err != nil {
		t.Fatal(err)
	}
}

func vSeed() int64 {
	var s int64 = 1
	fmt.Sscanf(os.Getenv("VERIF_SEED"), "%d", &s)
	return s
}

func vhookInstall(h func(point string, kv ...interface{})) { vhook.Install(h) }

// vInitArgs is vInit with caller-supplied client arguments.
func vInitArgs(args *config.Args) {
	vInitOnce.Do(func() {
		if os.Getenv("DTAIL_HOSTNAME_OVERRIDE") == "" {
			os.Setenv("DTAIL_HOSTNAME_OVERRIDE", "vhost")
		}
		config.Setup(source.Client, args, nil)
		var wg sync.WaitGroup
		wg.Add(1)
		dlog.Start(context.Background(), &wg, source.Client)
	})
}

func vGetenv(k string) string { return os.Getenv(k) }
