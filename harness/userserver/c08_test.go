package server

// C08 harness (HasFilePermission level): the abstract layout of spec/MC_Perm.tla is materialised with real
// symlinks and a FIFO; every rule list enumerated by TLC is installed as the user's permission set and every
// request path is checked; the verdicts are compared with the Ref verdicts computed by TLC.

import (
	"os"
	"path/filepath"
	"sort"
	"strings"
	"syscall"
	"testing"

	"github.com/mimecast/dtail/internal/config"
)

type c08Rule struct {
	Pat      string `json:"pat"`
	Deny     bool   `json:"deny"`
	Prefixed bool   `json:"prefixed"`
}

type c08Case struct {
	Rules  []c08Rule `json:"rules"`
	Served []string  `json:"served"`
	Impl   []string  `json:"impl"`
}

type c08Bad struct {
	Rules   []string `json:"rules"`
	Form    string   `json:"form"`
	Got     []string `json:"got"`
	Want    []string `json:"want"`
	Impl    []string `json:"impl_model"`
}

var c08Paths = []string{"pub/a.log", "pub/secret1.log", "pub/link_a", "pub/link_out", "pub/dlink/key.txt", "pub/chain",
	"pub/fifo", "pub/sub", "pub/dangling", "pub/../priv/key.txt", "priv/key.txt", "pub/sub/deep.log", "pub/dlink"}

// C08Layout creates the layout under root.
func c08Layout(root string) {
	os.MkdirAll(filepath.Join(root, "pub/sub"), 0755)
	os.MkdirAll(filepath.Join(root, "priv"), 0755)
	for _, f := range []string{"pub/a.log", "pub/secret1.log", "priv/key.txt", "pub/sub/deep.log"} {
		os.WriteFile(filepath.Join(root, f), []byte("CONTENT-OF:"+f+"\nsecond line of "+f+"\n"), 0644)
	}
	os.Symlink("a.log", filepath.Join(root, "pub/link_a"))
	os.Symlink("../priv/key.txt", filepath.Join(root, "pub/link_out"))
	os.Symlink("../priv", filepath.Join(root, "pub/dlink"))
	os.Symlink("link_out", filepath.Join(root, "pub/chain"))
	os.Symlink("nowhere", filepath.Join(root, "pub/dangling"))
	syscall.Mkfifo(filepath.Join(root, "pub/fifo"), 0644)
}

func c08RuleStrings(rules []c08Rule, root string) []string {
	pats := map[string]string{
		"all":    `^/.*`,
		"pub":    `^` + root + `/pub/`,
		"secret": `^` + root + `/pub/secret[[:digit:]]\.log$`,
		"key":    `key\.txt$`,
		"alog":   `^` + root + `/pub/a\.log$`,
	}
	out := []string{}
	for _, r := range rules {
		s := pats[r.Pat]
		if r.Deny {
			s = "!" + s
		}
		if r.Prefixed {
			s = "readfiles:" + s
		}
		out = append(out, s)
	}
	return out
}

func TestC08Replay(t *testing.T) {
	vInit("none")
	var cases []c08Case
	vReadJSON(t, "VERIF_CASES", &cases)
	tmp, _ := os.MkdirTemp("", "c08-")
	defer os.RemoveAll(tmp)
	root, _ := filepath.EvalSymlinks(tmp)
	root = filepath.Join(root, "root")
	c08Layout(root)
	cwd, _ := os.Getwd()
	defer os.Chdir(cwd)
	var bad []c08Bad
	evals := 0
	for ci, c := range cases {
		rules := c08RuleStrings(c.Rules, root)
		config.Server.Permissions.Default = rules
		config.Server.Permissions.Users = nil
		forms := []string{"absolute"}
		if ci%4 == 0 {
			forms = append(forms, "relative", "peruser", "lockedout")
		}
		if ci%4 == 1 {
			forms = append(forms, "foreign")
		}
		for _, form := range forms {
			name := "vuser"
			if form == "peruser" {
				// the rule list is the user's own; the default would allow everything
				config.Server.Permissions.Default = []string{"^/.*"}
				config.Server.Permissions.Users = map[string][]string{"alice": rules}
				name = "alice"
			}
			if form == "foreign" {
				// rules of another permission type stand between the readfiles rules: they concern something else and are
				// skipped, whatever they say and wherever they stand
				mixed := []string{}
				for k, r := range rules {
					mixed = append(mixed, []string{"audit:^/.*", "audit:!^/.*", "runcommands:!key\\.txt$"}[(ci+k)%3], r)
				}
				mixed = append(mixed, "audit:!^/.*")
				config.Server.Permissions.Default = mixed
			}
			if form == "lockedout" {
				// an account with an empty rule list of its own is locked out, however permissive the default rules are
				config.Server.Permissions.Default = []string{"^/.*"}
				config.Server.Permissions.Users = map[string][]string{"bob": {}, "alice": rules}
				name = "bob"
			}
			got := []string{}
			u, err := New(name, "harness")
			if err == nil {
				if form == "relative" {
					os.Chdir(root)
				}
				for _, p := range c08Paths {
					req := filepath.Join(root, p)
					if strings.Contains(p, "..") {
						req = root + "/" + p // keep the '..' in the request
					}
					if form == "relative" {
						req = p
					}
					evals++
					if u.HasFilePermission(req, "readfiles") {
						got = append(got, p)
					}
				}
				if form == "relative" {
					os.Chdir(cwd)
				}
			}
			if form == "peruser" && len(rules) == 0 {
				continue // an empty per-user list cannot be told from 'no entry'
			}
			sort.Strings(got)
			want := append([]string{}, c.Served...)
			if form == "lockedout" {
				want = nil
			}
			sort.Strings(want)
			if strings.Join(got, "|") != strings.Join(want, "|") {
				if len(bad) < 200 {
					bad = append(bad, c08Bad{Rules: rules, Form: form, Got: got, Want: want, Impl: c.Impl})
				}
			}
		}
	}
	vWriteJSON(t, "VERIF_OUT", map[string]interface{}{"evaluations": evals, "bad": bad, "root": root})
}
