package client

// C17 harness: every (known-hosts file, trust-all, answer) case enumerated by TLC is rendered with real keys (plain,
// hashed, multi-host, @cert-authority, comment and blank lines, with and without final newline) and run through the real
// KnownHostsCallback: Wrap() is called per contacted server, the queued unknown hosts are handed to the real
// promptAddHosts() with the answer fed through os.Stdin; observed are which dials may proceed, which are refused and the
// known-hosts file afterwards.  TestC17Loop drives the real PromptAddHosts() loop incl. a cancelled context.

import (
	"context"
	"crypto/ed25519"
	"crypto/rand"
	"encoding/base64"
	"fmt"
	"net"
	"os"
	"path/filepath"
	"sort"
	"strings"
	"testing"
	"time"

	gossh "golang.org/x/crypto/ssh"
	"golang.org/x/crypto/ssh/knownhosts"
)

type c17Case struct {
	File     [][]string `json:"file"`
	TrustAll bool       `json:"trustall"`
	Answer   string     `json:"answer"`
	Proceed  []string   `json:"proceed"`
	After    [][]string `json:"after"`
	After2   [][]string `json:"after2"`
}

type c17Bad struct {
	Case    c17Case  `json:"case"`
	FinalNL bool     `json:"final_newline"`
	Problem string   `json:"problem"`
	Before  string   `json:"before"`
	After   string   `json:"after"`
	Want    string   `json:"want_after"`
	Proceed []string `json:"proceeded"`
}

type c17World struct {
	server map[string]string
	remote map[string]net.Addr
	key    map[string]gossh.PublicKey
	other  gossh.PublicKey
	fkey   gossh.PublicKey
}

func c17Key() gossh.PublicKey {
	pub, _, _ := ed25519.GenerateKey(rand.Reader)
	k, _ := gossh.NewPublicKey(pub)
	return k
}

func c17NewWorld() *c17World {
	w := &c17World{server: map[string]string{"h1": "alpha.example.org:2222", "h2": "beta.example.org:2222"},
		remote: map[string]net.Addr{}, key: map[string]gossh.PublicKey{"h1": c17Key(), "h2": c17Key()}, other: c17Key(), fkey: c17Key()}
	w.remote["h1"], _ = net.ResolveTCPAddr("tcp", "10.0.0.1:2222")
	w.remote["h2"], _ = net.ResolveTCPAddr("tcp", "10.0.0.2:2222")
	return w
}

func c17KeyText(k gossh.PublicKey) string {
	return k.Type() + " " + base64.StdEncoding.EncodeToString(k.Marshal())
}

func (w *c17World) line(kind, h string, variant int) []string {
	switch kind {
	case "same":
		return []string{knownhosts.Line([]string{w.server[h]}, w.key[h])}
	case "other":
		return []string{knownhosts.Line([]string{w.server[h]}, w.other)}
	case "hashed":
		return []string{knownhosts.HashHostname(knownhosts.Normalize(w.server[h])) + " " + c17KeyText(w.key[h])}
	case "multi":
		return []string{knownhosts.Normalize(w.server[h]) + ",[gamma.example.org]:2222 " + c17KeyText(w.key[h])}
	case "foreign":
		return []string{knownhosts.Line([]string{"gamma.example.org:2222"}, w.fkey)}
	case "ca":
		return []string{"@cert-authority *.corp.example.org " + c17KeyText(w.fkey)}
	case "cmt":
		return []string{[]string{"# a comment", "#[alpha.example.org]:2222 ssh-ed25519 commented"}[variant%2]}
	case "blank":
		return []string{""}
	case "new":
		return []string{knownhosts.Line([]string{w.server[h]}, w.key[h]), knownhosts.Line([]string{w.remote[h].String()}, w.key[h])}
	}
	return nil
}

func c17Silence(f func()) {
	old := os.Stdout
	devnull, _ := os.OpenFile(os.DevNull, os.O_WRONLY, 0)
	os.Stdout = devnull
	defer func() { os.Stdout = old; devnull.Close() }()
	f()
}

func c17RunCase(c c17Case, idx int, w *c17World, dir string) *c17Bad {
	path := filepath.Join(dir, fmt.Sprintf("known_hosts_%d", idx))
	defer os.Remove(path)
	var lines []string
	for i, l := range c.File {
		lines = append(lines, w.line(l[0], l[1], idx+i)...)
	}
	finalNL := idx%3 != 0 || (len(c.File) > 0 && c.File[len(c.File)-1][0] == "blank")
	before := strings.Join(lines, "\n")
	if finalNL && len(lines) > 0 {
		before += "\n"
	}
	os.WriteFile(path, []byte(before), 0600)
	throttle := make(chan struct{}, 8)
	cbi, err := NewKnownHostsCallback(path, c.TrustAll, throttle)
	if err != nil {
		return &c17Bad{Case: c, Problem: err.Error()}
	}
	kc := cbi.(KnownHostsCallback)
	wrap := kc.Wrap()
	hosts := []string{"h1", "h2"}
	results := map[string]chan error{}
	var pending []unknownHost
	for _, h := range hosts {
		throttle <- struct{}{} // the dialling connection holds a throttle slot
		ch := make(chan error, 1)
		results[h] = ch
		go func(h string) { ch <- wrap(w.server[h], w.remote[h], w.key[h]) }(h)
		select {
		case u := <-kc.unknownCh:
			pending = append(pending, u)
		case err := <-ch:
			ch <- err
		case <-time.After(5 * time.Second):
			return &c17Bad{Case: c, Problem: "host key callback neither returned nor queued the host"}
		}
	}
	if len(pending) > 0 {
		oldStdin := os.Stdin
		r, wr, _ := os.Pipe()
		os.Stdin = r
		answer := map[string]string{"y": "y\n", "n": "n\n", "a": "all\n", "dy": "d\nyes\n", "dn": "details\nno\n"}[c.Answer]
		// lines that are not one of the offered answers (spec: NonAnswers) are asked again, they decide nothing: the
		// empty line (RETURN), blanks, abbreviations and other spellings of an answer, text containing one
		non := []string{"\n", "   \n", "ye\n", "al\n", "det\n", "Y\n", "YES\n", "yes please\n", "bogus answer\n", "no!\n", "\t\n"}
		pre := ""
		pick := int(vSeed()%1000) + idx*7
		for k := 0; k < 1+pick%3; k++ {
			pre += non[(pick/3+k*5)%len(non)]
		}
		if len(pending) == 2 && idx%2 == 1 && c.After2 != nil {
			// two batches in one session: the second host is put before the user after the first has been dealt with
			// (the prompt reads its terminal through a buffer of its own: one pipe per question)
			wr.WriteString(pre + answer)
			wr.Close()
			c17Silence(func() { kc.promptAddHosts(pending[:1]) })
			r2, wr2, _ := os.Pipe()
			os.Stdin = r2
			wr2.WriteString(answer)
			wr2.Close()
			c17Silence(func() { kc.promptAddHosts(pending[1:]) })
			r2.Close()
			c.After = c.After2
		} else {
			wr.WriteString(pre + answer)
			wr.Close()
			c17Silence(func() { kc.promptAddHosts(pending) })
		}
		os.Stdin = oldStdin
		r.Close()
	}
	var proceeded []string
	for _, h := range hosts {
		select {
		case err := <-results[h]:
			if err == nil {
				proceeded = append(proceeded, h)
			} else if !kc.Untrusted(w.server[h]) {
				return &c17Bad{Case: c, Problem: "refused host " + h + " is not reported as untrusted"}
			}
		case <-time.After(5 * time.Second):
			return &c17Bad{Case: c, Problem: "dial of " + h + " never got an answer"}
		}
	}
	// a retrying client dials a refused host again with the same callback: the refusal is no licence - the host is either
	// refused at once or put before the user again (answered "no" here); it must not pass
	for _, h := range hosts {
		refused := true
		for _, p := range proceeded {
			if p == h {
				refused = false
			}
		}
		if !refused {
			continue
		}
		again := make(chan error, 1)
		throttle <- struct{}{}
		go func(h string) { again <- wrap(w.server[h], w.remote[h], w.key[h]) }(h)
		select {
		case u := <-kc.unknownCh:
			u.responseCh <- dontTrustHost
			if err := <-again; err == nil {
				return &c17Bad{Case: c, Problem: "refused host " + h + " passed although the second question was answered no"}
			}
		case err := <-again:
			if err == nil {
				return &c17Bad{Case: c, Problem: "host " + h + " was refused by the user, a second dial with the same callback passed without asking"}
			}
		case <-time.After(5 * time.Second):
			return &c17Bad{Case: c, Problem: "second dial of refused host " + h + " never got an answer"}
		}
		<-throttle
	}
	// a host the user approved in this session comes back with ANOTHER key (a reconnect that ends up at a different machine):
	// the approval was for the key, not for the name - it must be refused or put before the user again (answered "no")
	for _, h := range proceeded {
		if len(pending) == 0 {
			break
		}
		again := make(chan error, 1)
		throttle <- struct{}{}
		go func(h string) { again <- wrap(w.server[h], w.remote[h], w.other) }(h)
		select {
		case u := <-kc.unknownCh:
			u.responseCh <- dontTrustHost
			if err := <-again; err == nil {
				return &c17Bad{Case: c, Problem: "host " + h + " with a changed key passed although the question was answered no"}
			}
		case err := <-again:
			if err == nil {
				return &c17Bad{Case: c, Problem: "host " + h + " was trusted in this session with one key, a second dial presenting another key passed without asking"}
			}
		case <-time.After(5 * time.Second):
			return &c17Bad{Case: c, Problem: "second dial of host " + h + " with a changed key never got an answer"}
		}
		select {
		case <-throttle:
		default:
		}
	}
	afterB, _ := os.ReadFile(path)
	after := string(afterB)
	// the old lines that stay are a subsequence of the file (order kept): take their text as it was written
	var wantLines []string
	pos := 0
	for _, l := range c.After {
		if l[0] == "new" {
			wantLines = append(wantLines, w.line("new", l[1], 0)...)
			continue
		}
		for pos < len(c.File) && !(c.File[pos][0] == l[0] && c.File[pos][1] == l[1]) {
			pos++
		}
		if pos < len(c.File) {
			wantLines = append(wantLines, lines[pos])
			pos++
		}
	}
	want := strings.Join(wantLines, "\n")
	rewritten := len(c.After) != len(c.File) || (len(c.After) > 0 && c.After[0][0] == "new")
	if rewritten {
		want += "\n"
	} else {
		want = before
	}
	sort.Strings(proceeded)
	wp := append([]string{}, c.Proceed...)
	sort.Strings(wp)
	problem := ""
	if strings.Join(proceeded, ",") != strings.Join(wp, ",") {
		problem = fmt.Sprintf("hosts the client proceeded with: %v, trusted: %v", proceeded, wp)
	} else if after != want {
		problem = "known-hosts file after the run differs from new entries + unrelated old lines"
	}
	if problem != "" {
		return &c17Bad{c, finalNL, problem, before, after, want, proceeded}
	}
	return nil
}

// occurrence index of After[i] among equal entries of After[0..i]
func c17Occurrence(after [][]string, i int) int {
	n := 0
	for j := 0; j < i; j++ {
		if after[j][0] == after[i][0] && after[j][1] == after[i][1] {
			n++
		}
	}
	return n
}

func TestC17Replay(t *testing.T) {
	vInit("none")
	var cases []c17Case
	vReadJSON(t, "VERIF_CASES", &cases)
	dir, _ := os.MkdirTemp("", "c17-")
	defer os.RemoveAll(dir)
	w := c17NewWorld()
	var bads []c17Bad
	for i, c := range cases {
		if b := c17RunCase(c, i, w, dir); b != nil && len(bads) < 100 {
			bads = append(bads, *b)
		}
	}
	vWriteJSON(t, "VERIF_OUT", map[string]interface{}{"evaluations": len(cases), "bad": bads})
}

// The real PromptAddHosts loop: an unknown host is queued, the context is cancelled before the batched prompt appears:
// nobody approved the host, the dial must not succeed.  Then the positive path: prompt after 2 s, answer yes.
func TestC17Loop(t *testing.T) {
	vInit("none")
	dir, _ := os.MkdirTemp("", "c17l-")
	defer os.RemoveAll(dir)
	w := c17NewWorld()
	res := map[string]interface{}{}
	{
		path := filepath.Join(dir, "kh1")
		throttle := make(chan struct{}, 8)
		cbi, _ := NewKnownHostsCallback(path, false, throttle)
		kc := cbi.(KnownHostsCallback)
		ctx, cancel := context.WithCancel(context.Background())
		go kc.PromptAddHosts(ctx)
		throttle <- struct{}{}
		got := make(chan error, 1)
		go func() { got <- kc.Wrap()(w.server["h1"], w.remote["h1"], w.key["h1"]) }()
		time.Sleep(400 * time.Millisecond)
		cancel()
		select {
		case err := <-got:
			res["cancelled_pending_host_proceeds"] = err == nil
		case <-time.After(1500 * time.Millisecond):
			res["cancelled_pending_host_proceeds"] = false
		}
		b, _ := os.ReadFile(path)
		res["cancelled_file"] = string(b)
	}
	{
		path := filepath.Join(dir, "kh2")
		throttle := make(chan struct{}, 8)
		cbi, _ := NewKnownHostsCallback(path, false, throttle)
		kc := cbi.(KnownHostsCallback)
		ctx, cancel := context.WithCancel(context.Background())
		oldStdin := os.Stdin
		r, wr, _ := os.Pipe()
		os.Stdin = r
		wr.WriteString("y\n")
		wr.Close()
		throttle <- struct{}{}
		got := make(chan error, 1)
		go func() { got <- kc.Wrap()(w.server["h2"], w.remote["h2"], w.key["h2"]) }()
		c17Silence(func() {
			go kc.PromptAddHosts(ctx)
			select {
			case err := <-got:
				res["approved_host_proceeds"] = err == nil
			case <-time.After(6 * time.Second):
				res["approved_host_proceeds"] = false
			}
		})
		cancel()
		os.Stdin = oldStdin
		r.Close()
		// the dial is answered before the rewritten file is moved into place: give the rename a moment
		has := false
		for i := 0; i < 100 && !has; i++ {
			b, _ := os.ReadFile(path)
			has = strings.Contains(string(b), knownhosts.Line([]string{w.server["h2"]}, w.key["h2"]))
			time.Sleep(10 * time.Millisecond)
		}
		res["approved_file_has_entry"] = has
	}
	{
		// an unknown host that shows up late: 2.6 s after the client started (the prompt loop has gone round once with
		// nothing to ask), trust-all: it must still be dealt with
		path := filepath.Join(dir, "kh3")
		throttle := make(chan struct{}, 8)
		cbi, _ := NewKnownHostsCallback(path, true, throttle)
		kc := cbi.(KnownHostsCallback)
		ctx, cancel := context.WithCancel(context.Background())
		c17Silence(func() {
			go kc.PromptAddHosts(ctx)
			time.Sleep(2600 * time.Millisecond)
			throttle <- struct{}{}
			got := make(chan error, 1)
			go func() { got <- kc.Wrap()(w.server["h1"], w.remote["h1"], w.key["h1"]) }()
			select {
			case err := <-got:
				res["late_host_proceeds"] = err == nil
			case <-time.After(8 * time.Second):
				res["late_host_proceeds"] = false
			}
		})
		cancel()
	}
	{
		// which callback a client gets: with a private key file of its own (--key) the host keys are checked like with any
		// other way of authenticating - an unknown host is put before the user, it does not pass by itself
		home := filepath.Join(dir, "home")
		os.MkdirAll(filepath.Join(home, ".ssh"), 0700)
		oldHome := os.Getenv("HOME")
		os.Setenv("HOME", home)
		keyPath := filepath.Join(dir, "id_custom")
		GeneratePrivatePublicKeyPairIfNotExists(keyPath, 2048)
		throttle := make(chan struct{}, 8)
		methods, cb := InitSSHAuthMethods(nil, nil, false, throttle, keyPath)
		os.Setenv("HOME", oldHome)
		res["keyfile_auth_methods"] = len(methods)
		throttle <- struct{}{}
		got := make(chan error, 1)
		go func() { got <- cb.Wrap()(w.server["h2"], w.remote["h2"], w.key["h2"]) }()
		select {
		case err := <-got:
			res["keyfile_unknown_host_passes_unasked"] = err == nil
		case <-time.After(700 * time.Millisecond):
			res["keyfile_unknown_host_passes_unasked"] = false // it waits for the user's answer
		}
	}
	vWriteJSON(t, "VERIF_OUT", res)
}
