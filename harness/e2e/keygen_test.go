package client

// e2e helper: writes an RSA key pair (private key PEM + authorized_keys line) for the end-to-end SSH stage, using
// dtail's own key generation.

import (
	"os"
	"testing"
)

func TestE2EKeygen(t *testing.T) {
	vInit("none")
	path := os.Getenv("VERIF_KEY")
	if path == "" {
		t.Skip("no VERIF_KEY")
	}
	GeneratePrivatePublicKeyPair(path, 2048)
	if _, err := os.Stat(path + ".pub"); err != nil {
		t.Fatal(err)
	}
}
