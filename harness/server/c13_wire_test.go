package server

// C13 over a real SSH connection: the slots a session holds come back when the session's CONNECTION ends, whatever the
// client did on it before (spec/Limiter.tla: AbortHolding / CancelWait for every read of the session).  The server is
// the real one (New + Start) with MaxConcurrentTails = 1; the client is a bare x/crypto SSH client that speaks the DTail
// command protocol, so that it can also do what no DTail client does: a second "shell" request on the same channel, a
// second session channel on the same connection, an unknown request.
//   A: tail of f1 (holds the only slot; lines of f1 arrive)
//   B: tail of f2 on another connection while A is alive: nothing of f2 may arrive (the limit holds)
//   A ends in the way the case says; then f2's lines must reach B (the slot came back).

import (
	"encoding/base64"
	"fmt"
	"os"
	"path/filepath"
	"strings"
	"sync"
	"testing"
	"time"

	"github.com/mimecast/dtail/internal/config"

	gossh "golang.org/x/crypto/ssh"
)

type c13Wire struct {
	client *gossh.Client
	ch     gossh.Channel
	mu     sync.Mutex
	got    strings.Builder
}

func (w *c13Wire) has(s string) bool {
	w.mu.Lock()
	defer w.mu.Unlock()
	return strings.Contains(w.got.String(), s)
}

func c13Dial(srv *c14Server) (*c13Wire, error) {
	cfg := &gossh.ClientConfig{User: "alice", Auth: []gossh.AuthMethod{gossh.PublicKeys(srv.signer)},
		HostKeyCallback: gossh.InsecureIgnoreHostKey(), Timeout: 5 * time.Second}
	cl, err := gossh.Dial("tcp", srv.addr, cfg)
	if err != nil {
		return nil, err
	}
	return &c13Wire{client: cl}, nil
}

func (w *c13Wire) session() (gossh.Channel, error) {
	ch, reqs, err := w.client.OpenChannel("session", nil)
	if err != nil {
		return nil, err
	}
	go gossh.DiscardRequests(reqs)
	if ok, err := ch.SendRequest("shell", true, nil); err != nil || !ok {
		return nil, fmt.Errorf("shell request: ok=%v err=%v", ok, err)
	}
	go func() {
		buf := make([]byte, 8192)
		for {
			n, err := ch.Read(buf)
			w.mu.Lock()
			w.got.Write(buf[:n])
			w.mu.Unlock()
			if err != nil {
				return
			}
		}
	}()
	return ch, nil
}

func c13WireCmd(mode, path string) []byte {
	payload := fmt.Sprintf("%s:quiet=true %s regex:noop ", mode, path)
	return []byte(fmt.Sprintf("protocol 4.1 base64 %s;", base64.StdEncoding.EncodeToString([]byte(payload))))
}

func c13Wait(d time.Duration, f func() bool) bool {
	for dl := time.Now().Add(d); time.Now().Before(dl); time.Sleep(20 * time.Millisecond) {
		if f() {
			return true
		}
	}
	return f()
}

func TestC13Wire(t *testing.T) {
	vInit("none")
	dir, _ := os.MkdirTemp("", "c13w-")
	defer os.RemoveAll(dir)
	cwd, _ := os.Getwd()
	defer os.Chdir(cwd)
	c14Setup(t, dir)
	config.Server.MaxConcurrentTails = 1
	config.Server.MaxConcurrentCats = 1
	srv := c14Start(t, 10)
	defer srv.cancel()
	type result struct {
		Case    string `json:"case"`
		Bad     string `json:"bad"`
		Problem string `json:"problem"`
	}
	var results []result
	endings := []string{"close", "secondshell", "secondshell-abrupt", "secondsession", "unknownrequest", "secondshell-unknownrequest"}
	for ci, ending := range endings {
		res := result{Case: ending}
		f1 := filepath.Join(dir, fmt.Sprintf("f1_%d.log", ci))
		f2 := filepath.Join(dir, fmt.Sprintf("f2_%d.log", ci))
		os.WriteFile(f1, []byte("old\n"), 0644)
		os.WriteFile(f2, []byte("old\n"), 0644)
		stop := make(chan struct{})
		var wg sync.WaitGroup
		wg.Add(1)
		go func() { // both files grow all the time
			defer wg.Done()
			a, _ := os.OpenFile(f1, os.O_APPEND|os.O_WRONLY, 0644)
			b, _ := os.OpenFile(f2, os.O_APPEND|os.O_WRONLY, 0644)
			defer a.Close()
			defer b.Close()
			for i := 0; ; i++ {
				select {
				case <-stop:
					return
				case <-time.After(40 * time.Millisecond):
				}
				fmt.Fprintf(a, "F1LINE %d\n", i)
				fmt.Fprintf(b, "F2LINE %d\n", i)
			}
		}()
		func() {
			a, err := c13Dial(srv)
			if err != nil {
				res.Problem = "A: " + err.Error()
				return
			}
			defer a.client.Close()
			cha, err := a.session()
			if err != nil {
				res.Problem = "A: " + err.Error()
				return
			}
			cha.Write(c13WireCmd("tail", f1))
			if !c13Wait(10*time.Second, func() bool { return a.has("F1LINE") }) {
				res.Problem = "A: the tail of f1 delivers nothing"
				return
			}
			b, err := c13Dial(srv)
			if err != nil {
				res.Problem = "B: " + err.Error()
				return
			}
			defer b.client.Close()
			chb, err := b.session()
			if err != nil {
				res.Problem = "B: " + err.Error()
				return
			}
			chb.Write(c13WireCmd("tail", f2))
			time.Sleep(1200 * time.Millisecond)
			if b.has("F2LINE") {
				res.Bad = "MaxConcurrentTails = 1 and the tail of f1 is running: the tail of f2 in another session delivers lines"
				return
			}
			// A's ending
			abrupt := false
			switch ending {
			case "secondshell", "secondshell-abrupt", "secondshell-unknownrequest":
				cha.SendRequest("shell", true, nil)
				abrupt = ending == "secondshell-abrupt"
				if ending == "secondshell-unknownrequest" {
					cha.SendRequest("env", true, []byte{0, 0, 0, 1, 'a', 0, 0, 0, 1, 'b'})
				}
			case "secondsession":
				a2 := &c13Wire{client: a.client}
				if ch2, err := a2.session(); err == nil {
					ch2.Write(c13WireCmd("tail", f2))
				}
			case "unknownrequest":
				cha.SendRequest("env", true, []byte{0, 0, 0, 1, 'a', 0, 0, 0, 1, 'b'})
			}
			time.Sleep(100 * time.Millisecond)
			if abrupt {
				a.client.Conn.Close()
			} else {
				a.client.Close()
			}
			if !c13Wait(15*time.Second, func() bool { return b.has("F2LINE") }) {
				res.Bad = fmt.Sprintf("the session holding the only tail slot ended (%s): 15 s later the tail of another session still waits for the slot", ending)
			}
		}()
		close(stop)
		wg.Wait()
		results = append(results, res)
		// the next case needs the slot too: wait until B's end has freed it
		time.Sleep(300 * time.Millisecond)
	}
	vWriteJSON(t, "VERIF_OUT", results)
}
