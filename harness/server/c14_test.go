package server

// C14 harness: an in-process dtail server (real listener loop, real SSH handshake, real handlers) on a loopback port and
// raw x/crypto/ssh clients that execute a TLC-generated history of connection events: connect (TCP), authenticate
// (valid key / health password) or fail (wrong password, TCP close mid-handshake), shell requests (same or new channel),
// orderly or abrupt close.  After every event the server's connection counter is read and compared with the number of
// connections that are really open; at every connect the acceptance is compared with the room that is really left.

import (
	"sync"
	"sync/atomic"
	"bufio"
	"context"
	"crypto/ed25519"
	"crypto/rand"
	"fmt"
	mrand "math/rand"
	"net"
	"os"
	"path/filepath"
	"syscall"
	"testing"
	"time"

	"github.com/mimecast/dtail/internal/config"
	dssh "github.com/mimecast/dtail/internal/ssh"

	gossh "golang.org/x/crypto/ssh"
)

type c14Step struct {
	A       string `json:"a"`
	C       int    `json:"c"`
	Counter int    `json:"counter"`
	Refused bool   `json:"refused"`
}

type c14Case struct {
	ID   int       `json:"id"`
	Max  int       `json:"max"`
	Hist []c14Step `json:"hist"`
	Seed int64     `json:"seed"`
}

type c14Obs struct {
	Step     int    `json:"step"`
	A        string `json:"a"`
	C        int    `json:"c"`
	Counter  int    `json:"counter"`
	Open     int    `json:"open"`
	Outcome  string `json:"outcome"`
	ModelCtr int    `json:"model_counter"`
}

type c14Result struct {
	ID      int      `json:"id"`
	Obs     []c14Obs `json:"obs"`
	Bad     []string `json:"bad"`
	Problem string   `json:"problem"`
}

type c14BufConn struct {
	net.Conn
	r *bufio.Reader
}

func (b *c14BufConn) Read(p []byte) (int, error) { return b.r.Read(p) }

type c14Conn struct {
	tcp     *c14BufConn
	client  *gossh.Client
	channel gossh.Channel
	state   string // none | connected | authed | over
}

type c14Server struct {
	s      *Server
	addr   string
	signer gossh.Signer
	cancel context.CancelFunc
	fl     *c14FaultListener // nil: the server listens by itself (Start)
}

var c14StatsLocked int32 // set when the server's statistics mutex could not be taken for 3 s (somebody left it locked)

func (srv *c14Server) counter() int {
	if atomic.LoadInt32(&c14StatsLocked) == 1 {
		return -777
	}
	for dl := time.Now().Add(3 * time.Second); ; time.Sleep(time.Millisecond) {
		if srv.s.stats.mutex.TryLock() {
			defer srv.s.stats.mutex.Unlock()
			return srv.s.stats.currentConnections
		}
		if time.Now().After(dl) {
			atomic.StoreInt32(&c14StatsLocked, 1)
			return -777
		}
	}
}

func (srv *c14Server) settle() int {
	last, stable := -999, 0
	for i := 0; i < 400; i++ {
		n := srv.counter()
		if n == last {
			stable++
			if stable >= 15 {
				return n
			}
		} else {
			stable, last = 0, n
		}
		time.Sleep(2 * time.Millisecond)
	}
	return last
}

// c14Within runs f and gives up waiting after d (a server that stopped serving a connection never answers)
func c14Within(d time.Duration, f func()) bool {
	done := make(chan struct{})
	go func() { f(); close(done) }()
	select {
	case <-done:
		return true
	case <-time.After(d):
		return false
	}
}

var c14Signer gossh.Signer

// c14Setup prepares the working directory once: host key and alice's authorized_keys (the server reads both relative
// to its working directory, which is process-wide).
func c14Setup(t *testing.T, dir string) {
	os.MkdirAll(filepath.Join(dir, "cache"), 0755)
	os.Chdir(dir)
	key, err := dssh.GeneratePrivateRSAKey(2048)
	if err != nil {
		t.Fatal(err)
	}
	config.Server.HostKeyFile = filepath.Join(dir, "cache", "ssh_host_key")
	os.WriteFile(config.Server.HostKeyFile, dssh.EncodePrivateKeyToPEM(key), 0600)
	pub, priv, _ := ed25519.GenerateKey(rand.Reader)
	c14Signer, _ = gossh.NewSignerFromKey(priv)
	sshPub, _ := gossh.NewPublicKey(pub)
	os.WriteFile(filepath.Join(dir, "cache", "alice.authorized_keys"), gossh.MarshalAuthorizedKey(sshPub), 0644)
}

// c14FaultListener is the real TCP listener; on demand the next accepted connection is dropped and Accept reports an
// error instead (what the kernel does when the client aborted in the backlog or the process has no descriptor left).
type c14FaultListener struct {
	net.Listener
	mu   sync.Mutex
	fail error
	hits int
}

func (l *c14FaultListener) Accept() (net.Conn, error) {
	conn, err := l.Listener.Accept()
	l.mu.Lock()
	fail := l.fail
	l.fail = nil
	if fail != nil {
		l.hits++
	}
	l.mu.Unlock()
	if err == nil && fail != nil {
		conn.Close()
		return nil, &net.OpError{Op: "accept", Net: "tcp", Addr: l.Listener.Addr(), Err: fail}
	}
	return conn, err
}

// c14StartFault is c14Start with the fault-injecting listener: what Start() does after net.Listen, done by hand.
func c14StartFault(t *testing.T, max int) *c14Server {
	l, err := net.Listen("tcp", "127.0.0.1:0")
	if err != nil {
		t.Fatal(err)
	}
	config.Server.MaxConnections = max
	ctx, cancel := context.WithCancel(context.Background())
	s := New()
	fl := &c14FaultListener{Listener: l}
	go s.stats.start(ctx)
	go s.listenerLoop(ctx, fl)
	go func() { <-ctx.Done(); l.Close() }()
	srv := &c14Server{s: s, addr: l.Addr().String(), signer: c14Signer, cancel: cancel, fl: fl}
	time.Sleep(20 * time.Millisecond)
	srv.settle()
	return srv
}

func c14Start(t *testing.T, max int) *c14Server {
	signer := c14Signer
	l, _ := net.Listen("tcp", "127.0.0.1:0")
	port := l.Addr().(*net.TCPAddr).Port
	l.Close()
	config.Server.SSHBindAddress = "127.0.0.1"
	config.Common.SSHPort = port
	config.Server.MaxConnections = max
	ctx, cancel := context.WithCancel(context.Background())
	s := New()
	go s.Start(ctx)
	addr := fmt.Sprintf("127.0.0.1:%d", port)
	for i := 0; i < 200; i++ {
		if c, err := net.DialTimeout("tcp", addr, 50*time.Millisecond); err == nil {
			// this probe connection is refused or handshakes; close it and wait until it is forgotten
			c.Close()
			break
		}
		time.Sleep(5 * time.Millisecond)
	}
	srv := &c14Server{s: s, addr: addr, signer: signer, cancel: cancel}
	time.Sleep(50 * time.Millisecond)
	srv.settle()
	return srv
}

func c14Run(srv *c14Server, c c14Case) (res c14Result) {
	res.ID = c.ID
	rng := mrand.New(mrand.NewSource(c.Seed))
	base := srv.settle() // connections of earlier histories are over: the counter should be back at its base
	conns := map[int]*c14Conn{}
	open := 0
	check := func(i int, st c14Step, outcome string) {
		ctr := srv.settle() - base
		// a stable value that disagrees is re-read for a while: on a loaded machine the server's goroutine may simply not
		// have run yet (a leaked or double-released slot stays wrong, a late update does not)
		for dl := time.Now().Add(3 * time.Second); ctr != open && len(res.Bad) == 0 && time.Now().Before(dl); {
			time.Sleep(20 * time.Millisecond)
			ctr = srv.settle() - base
		}
		res.Obs = append(res.Obs, c14Obs{i, st.A, st.C, ctr, open, outcome, st.Counter})
		if atomic.LoadInt32(&c14StatsLocked) == 1 {
			res.Bad = append(res.Bad, fmt.Sprintf("step %d (%s %d): the server's connection counter cannot be read any more, its mutex is held for good", i, st.A, st.C))
		} else if ctr != open {
			res.Bad = append(res.Bad, fmt.Sprintf("step %d (%s %d): the server reports %d open connections, %d are open", i, st.A, st.C, ctr, open))
		}
		if ctr < 0 || ctr+base < 0 {
			res.Bad = append(res.Bad, fmt.Sprintf("step %d: negative connection count %d", i, ctr+base))
		}
	}
	for i, st := range c.Hist {
		cn := conns[st.C]
		if cn == nil {
			cn = &c14Conn{state: "none"}
			conns[st.C] = cn
		}
		outcome := "skipped"
		switch st.A {
		case "connect":
			if cn.state != "none" {
				break
			}
			tcp, err := net.DialTimeout("tcp", srv.addr, time.Second)
			if err != nil {
				res.Problem = err.Error()
				return
			}
			bc := &c14BufConn{tcp, bufio.NewReader(tcp)}
			tcp.SetReadDeadline(time.Now().Add(5 * time.Second))
			_, err = bc.r.Peek(1) // the server's SSH version string, or EOF when the connection was refused
			tcp.SetReadDeadline(time.Time{})
			if err != nil {
				outcome = "refused"
				cn.state = "over"
				tcp.Close()
				if open < c.Max {
					res.Bad = append(res.Bad, fmt.Sprintf("step %d: connection %d refused although only %d of %d connections are open", i, st.C, open, c.Max))
				}
			} else {
				outcome = "accepted"
				cn.tcp = bc
				cn.state = "connected"
				open++
				if open > c.Max {
					res.Bad = append(res.Bad, fmt.Sprintf("step %d: connection %d accepted as number %d with MaxConnections = %d", i, st.C, open, c.Max))
				}
			}
		case "accepterror":
			if cn.state != "none" || srv.fl == nil {
				break
			}
			kind := []error{syscall.ECONNABORTED, syscall.EMFILE, syscall.ENFILE}[rng.Intn(3)]
			srv.fl.mu.Lock()
			srv.fl.fail = kind
			before := srv.fl.hits
			srv.fl.mu.Unlock()
			if tcp, err := net.DialTimeout("tcp", srv.addr, time.Second); err == nil {
				for dl := time.Now().Add(2 * time.Second); time.Now().Before(dl); time.Sleep(2 * time.Millisecond) {
					srv.fl.mu.Lock()
					h := srv.fl.hits
					srv.fl.mu.Unlock()
					if h > before {
						break
					}
				}
				tcp.Close()
			}
			outcome = "accept failed: " + kind.Error()
		case "auth":
			if cn.state != "connected" {
				break
			}
			cfg := &gossh.ClientConfig{User: "alice", Auth: []gossh.AuthMethod{gossh.PublicKeys(srv.signer)},
				HostKeyCallback: gossh.InsecureIgnoreHostKey(), Timeout: 3 * time.Second}
			if rng.Intn(3) == 0 {
				cfg = &gossh.ClientConfig{User: config.HealthUser, Auth: []gossh.AuthMethod{gossh.Password(config.HealthUser)},
					HostKeyCallback: gossh.InsecureIgnoreHostKey(), Timeout: 3 * time.Second}
			}
			cc, chans, reqs, err := gossh.NewClientConn(cn.tcp, srv.addr, cfg)
			if err != nil {
				outcome = "handshake failed: " + err.Error()
				cn.state = "over"
				cn.tcp.Close()
				open--
			} else {
				cn.client = gossh.NewClient(cc, chans, reqs)
				cn.state = "authed"
				outcome = "authenticated"
			}
		case "authfail":
			if cn.state != "connected" {
				break
			}
			if rng.Intn(2) == 0 {
				cfg := &gossh.ClientConfig{User: "alice", Auth: []gossh.AuthMethod{gossh.Password("wrong")},
					HostKeyCallback: gossh.InsecureIgnoreHostKey(), Timeout: 3 * time.Second}
				_, _, _, err := gossh.NewClientConn(cn.tcp, srv.addr, cfg)
				outcome = fmt.Sprintf("bad credentials: %v", err != nil)
			} else {
				outcome = "tcp closed during handshake"
			}
			cn.tcp.Close()
			cn.state = "over"
			open--
		case "shell":
			if cn.state != "authed" {
				break
			}
			if cn.channel == nil || rng.Intn(2) == 0 {
				var ch gossh.Channel
				var reqs <-chan *gossh.Request
				var err error
				if !c14Within(5*time.Second, func() { ch, reqs, err = cn.client.OpenChannel("session", nil) }) {
					err = fmt.Errorf("no answer to the channel request")
				}
				if err != nil {
					outcome = "channel refused: " + err.Error()
					break
				}
				go gossh.DiscardRequests(reqs)
				cn.channel = ch
			}
			var ok bool
			var err error
			if !c14Within(5*time.Second, func() { ok, err = cn.channel.SendRequest("shell", true, nil) }) {
				err = fmt.Errorf("no answer")
			}
			outcome = fmt.Sprintf("shell request ok=%v err=%v", ok, err)
		case "badrequest":
			if cn.state != "authed" {
				break
			}
			// a session channel, a request type the server does not know, then a burst of further requests that are already
			// on the wire when the server reacts (what "ssh -o SendEnv=..." does), then the client goes away
			var ch gossh.Channel
			var reqs <-chan *gossh.Request
			var err error
			onServed := cn.channel != nil && rng.Intn(2) == 0
			if onServed {
				// on the channel that already has a shell: one more shell request first, then the unknown request and the burst
				ch = cn.channel
				c14Within(5*time.Second, func() { ch.SendRequest("shell", true, nil) })
			}
			if !onServed && (!c14Within(5*time.Second, func() { ch, reqs, err = cn.client.OpenChannel("session", nil) }) || err != nil) {
				outcome = fmt.Sprintf("no session channel: %v", err)
			} else {
				if !onServed {
					go gossh.DiscardRequests(reqs)
				}
				n := []int{0, 3, 20, 40}[rng.Intn(4)]
				ch.SendRequest([]string{"pty-req", "env", "exec", "subsystem"}[rng.Intn(4)], false, []byte{0, 0, 0, 1, 'x'})
				for k := 0; k < n; k++ {
					ch.SendRequest("env", false, []byte{0, 0, 0, 1, 'a', 0, 0, 0, 1, 'b'})
				}
				outcome = fmt.Sprintf("unknown request followed by %d more (channel with shell(s): %v)", n, onServed)
			}
			time.Sleep(time.Duration(rng.Intn(20)) * time.Millisecond)
			cn.tcp.Conn.Close()
			cn.state = "over"
			open--
		case "otherchannel":
			if cn.state != "authed" {
				break
			}
			kind := []string{"direct-tcpip", "x11", "nonsense"}[rng.Intn(3)]
			var err error
			if !c14Within(5*time.Second, func() { _, _, err = cn.client.OpenChannel(kind, nil) }) {
				err = fmt.Errorf("no answer")
			}
			outcome = fmt.Sprintf("channel %s: rejected=%v", kind, err != nil)
			// (whether the connection is still served afterwards shows in the counter: it stays open on the client side)
		case "channelburst":
			if cn.state != "authed" {
				break
			}
			// more channel opens in flight than the SSH library queues per connection (16), nobody waits for the answers
			n := 18 + rng.Intn(12)
			for k := 0; k < n; k++ {
				kind := []string{"session", "session", "direct-tcpip"}[rng.Intn(3)]
				go func() {
					if ch, reqs, err := cn.client.OpenChannel(kind, nil); err == nil {
						go gossh.DiscardRequests(reqs)
						_ = ch
					}
				}()
			}
			time.Sleep(time.Duration(20+rng.Intn(50)) * time.Millisecond)
			outcome = fmt.Sprintf("%d channel opens in flight", n)
		case "close":
			if cn.state != "authed" {
				break
			}
			if rng.Intn(2) == 0 {
				cn.client.Close()
				outcome = "closed orderly"
			} else {
				cn.tcp.Conn.Close()
				outcome = "tcp closed abruptly"
			}
			cn.state = "over"
			open--
		}
		if outcome != "skipped" {
			check(i, st, outcome)
		}
		if atomic.LoadInt32(&c14StatsLocked) == 1 {
			return // nothing further can be observed on this server
		}
	}
	// epilogue: end whatever is still open, the count must return to the base
	for _, cn := range conns {
		if cn.state == "authed" {
			cn.client.Close()
		} else if cn.state == "connected" {
			cn.tcp.Close()
		}
	}
	ctr := srv.settle() - base
	for dl := time.Now().Add(3 * time.Second); ctr != 0 && time.Now().Before(dl); {
		time.Sleep(20 * time.Millisecond)
		ctr = srv.settle() - base
	}
	if ctr != 0 {
		res.Bad = append(res.Bad, fmt.Sprintf("after all connections ended the server still reports %d open connections", ctr))
	}
	return
}

func TestC14Replay(t *testing.T) {
	vInit("none")
	var cases []c14Case
	vReadJSON(t, "VERIF_CASES", &cases)
	dir, _ := os.MkdirTemp("", "c14-")
	defer os.RemoveAll(dir)
	cwd, _ := os.Getwd()
	defer os.Chdir(cwd)
	// one server per MaxConnections value; a leak found in one history would taint the following ones, so the counter's
	// base is re-read before every history and a tainted server is replaced
	c14Setup(t, dir)
	var results []c14Result
	var srv *c14Server
	nbad := 0
	for _, c := range cases {
		// MaxConnections is read from the global configuration at every accept. A leak found in one history would
		// taint the following ones, so a server whose count is not back at 0 is replaced.
		fault := false
		for _, st := range c.Hist {
			fault = fault || st.A == "accepterror"
		}
		if srv == nil || (srv.fl != nil) != fault || srv.settle() != 0 {
			if srv != nil {
				srv.cancel()
			}
			if fault {
				srv = c14StartFault(t, c.Max)
			} else {
				srv = c14Start(t, c.Max)
			}
		}
		config.Server.MaxConnections = c.Max
		results = append(results, c14Run(srv, c))
		if nbad += len(results[len(results)-1].Bad); nbad > 6 || atomic.LoadInt32(&c14StatsLocked) == 1 {
			break // enough to report; every further history would wait for a server that does not recover
		}
	}
	vWriteJSON(t, "VERIF_OUT", results)
}

// Churn: connections ending while others are being accepted - the counter is updated from the accept loop and from
// every connection's goroutine at once.  Many short-lived connections (closed before, during or after the handshake)
// from parallel workers; whenever the workers pause, the reported count must equal the connections still open (0),
// it must never be negative or above the limit, and afterwards the full limit must be available again.
func TestC14Churn(t *testing.T) {
	vInit("none")
	dir, _ := os.MkdirTemp("", "c14c-")
	defer os.RemoveAll(dir)
	cwd, _ := os.Getwd()
	defer os.Chdir(cwd)
	c14Setup(t, dir)
	rounds, workers, per := 6, 16, 40
	fmt.Sscanf(os.Getenv("VERIF_ROUNDS"), "%d", &rounds)
	max := 24
	srv := c14Start(t, max)
	defer srv.cancel()
	var bad []string
	var total int64
	seed := vSeed()
	for r := 0; r < rounds && len(bad) == 0; r++ {
		stop := make(chan struct{})
		var sampleBad atomic.Value
		go func() { // sampler: the count is never negative nor above the limit
			for {
				select {
				case <-stop:
					return
				default:
				}
				if n := srv.counter(); n < 0 || n > max {
					sampleBad.Store(fmt.Sprintf("round %d: the server reports %d open connections (limit %d)", r, n, max))
				}
				time.Sleep(200 * time.Microsecond)
			}
		}()
		var wg sync.WaitGroup
		for w := 0; w < workers; w++ {
			wg.Add(1)
			go func(w int) {
				defer wg.Done()
				rng := mrand.New(mrand.NewSource(seed*1000003 + int64(r*100+w)))
				for i := 0; i < per; i++ {
					tcp, err := net.DialTimeout("tcp", srv.addr, time.Second)
					if err != nil {
						continue
					}
					atomic.AddInt64(&total, 1)
					switch rng.Intn(4) {
					case 0: // gone at once
					case 1: // gone during the version exchange
						tcp.Write([]byte("SSH-2.0-churn\r\n"))
						time.Sleep(time.Duration(rng.Intn(300)) * time.Microsecond)
					case 2: // wrong password, then gone
						cfg := &gossh.ClientConfig{User: "alice", Auth: []gossh.AuthMethod{gossh.Password("wrong")},
							HostKeyCallback: gossh.InsecureIgnoreHostKey(), Timeout: 2 * time.Second}
						gossh.NewClientConn(tcp, srv.addr, cfg)
					default: // health login, then closed
						cfg := &gossh.ClientConfig{User: config.HealthUser, Auth: []gossh.AuthMethod{gossh.Password(config.HealthUser)},
							HostKeyCallback: gossh.InsecureIgnoreHostKey(), Timeout: 2 * time.Second}
						if cc, chans, reqs, err := gossh.NewClientConn(tcp, srv.addr, cfg); err == nil {
							cl := gossh.NewClient(cc, chans, reqs)
							time.Sleep(time.Duration(rng.Intn(500)) * time.Microsecond)
							cl.Close()
						}
					}
					tcp.Close()
				}
			}(w)
		}
		wg.Wait()
		close(stop)
		if s, _ := sampleBad.Load().(string); s != "" {
			bad = append(bad, s)
		}
		n := srv.settle()
		for dl := time.Now().Add(5 * time.Second); n != 0 && time.Now().Before(dl); {
			time.Sleep(50 * time.Millisecond)
			n = srv.settle()
		}
		if n != 0 {
			bad = append(bad, fmt.Sprintf("round %d: all %d connections of the round are over, the server still reports %d open connections", r, workers*per, n))
		}
	}
	// the whole limit is available again
	if len(bad) == 0 {
		var held []net.Conn
		for i := 0; i < max; i++ {
			tcp, err := net.DialTimeout("tcp", srv.addr, time.Second)
			if err != nil {
				bad = append(bad, "dial: "+err.Error())
				break
			}
			br := bufio.NewReader(tcp)
			tcp.SetReadDeadline(time.Now().Add(5 * time.Second))
			if _, err := br.Peek(1); err != nil {
				bad = append(bad, fmt.Sprintf("after the churn connection %d of %d allowed ones was refused", i+1, max))
				tcp.Close()
				break
			}
			held = append(held, tcp)
		}
		for _, c := range held {
			c.Close()
		}
		n := srv.settle()
		for dl := time.Now().Add(5 * time.Second); n != 0 && time.Now().Before(dl); {
			time.Sleep(50 * time.Millisecond)
			n = srv.settle()
		}
		if n != 0 && len(bad) == 0 {
			bad = append(bad, fmt.Sprintf("after the last connections ended the server reports %d open connections", n))
		}
	}
	vWriteJSON(t, "VERIF_OUT", map[string]interface{}{"connections": total, "bad": bad})
}

// A client that connects and then stays silent (no SSH version string) for longer than any plausible handshake timeout.
// While it is there the server counts it; when it goes the slot comes back once - never twice: afterwards exactly
// MaxConnections further connections are served.  (Runs beside the history replay, in a process of its own.)
func TestC14Silent(t *testing.T) {
	vInit("none")
	dir, _ := os.MkdirTemp("", "c14s-")
	defer os.RemoveAll(dir)
	cwd, _ := os.Getwd()
	defer os.Chdir(cwd)
	c14Setup(t, dir)
	max := 2
	srv := c14Start(t, max)
	defer srv.cancel()
	var bad []string
	wait := 12
	fmt.Sscanf(os.Getenv("VERIF_SILENT_S"), "%d", &wait)
	silent, err := net.DialTimeout("tcp", srv.addr, time.Second)
	if err != nil {
		t.Fatal(err)
	}
	lowest := 1
	for i := 0; i < wait*10; i++ {
		time.Sleep(100 * time.Millisecond)
		if n := srv.counter(); n < lowest {
			lowest = n
		}
	}
	if lowest < 0 {
		bad = append(bad, fmt.Sprintf("the count went down to %d while one silent connection was open", lowest))
	}
	silent.Close()
	n := srv.settle()
	for dl := time.Now().Add(5 * time.Second); n != 0 && time.Now().Before(dl); {
		time.Sleep(50 * time.Millisecond)
		n = srv.settle()
	}
	if n != 0 {
		bad = append(bad, fmt.Sprintf("after the silent connection went away the server reports %d open connections", n))
	}
	// exactly max connections are served now
	var held []net.Conn
	served := 0
	for i := 0; i < max+2; i++ {
		tcp, err := net.DialTimeout("tcp", srv.addr, time.Second)
		if err != nil {
			break
		}
		held = append(held, tcp)
		br := bufio.NewReader(tcp)
		tcp.SetReadDeadline(time.Now().Add(3 * time.Second))
		if _, err := br.Peek(1); err == nil {
			served++
		}
	}
	if served != max {
		bad = append(bad, fmt.Sprintf("after a silent connection of %d s, %d simultaneous connections are served with MaxConnections = %d", wait, served, max))
	}
	for _, c := range held {
		c.Close()
	}
	vWriteJSON(t, "VERIF_OUT", map[string]interface{}{"bad": bad, "seconds": wait})
}
