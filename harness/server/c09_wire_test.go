package server

// C09 where it is enforced: the SSH handshake of the real server (New + Start).  Every attempt enumerated by TLC
// (spec/AuthCases.tla, WireAttempts: user x method x credential, with the Ref answer) is made by a bare x/crypto SSH client
// from 127.0.0.1; "granted" means the handshake succeeds AND a session channel with a shell request is served.  A granted
// health login is then asked to cat a file: the content must not come back.

import (
	"crypto/ed25519"
	"crypto/rand"
	"encoding/base64"
	"fmt"
	"os"
	"path/filepath"
	"strings"
	"testing"
	"time"

	"github.com/mimecast/dtail/internal/config"

	gossh "golang.org/x/crypto/ssh"
)

type c09WireCase struct {
	User   string `json:"user"`
	Method string `json:"method"`
	Cred   string `json:"cred"`
	Ref    bool   `json:"ref"`
}

func TestC09Wire(t *testing.T) {
	vInit("none")
	var cases []c09WireCase
	vReadJSON(t, "VERIF_CASES", &cases)
	dir, _ := os.MkdirTemp("", "c09w-")
	defer os.RemoveAll(dir)
	cwd, _ := os.Getwd()
	defer os.Chdir(cwd)
	c14Setup(t, dir) // host key; cache/alice.authorized_keys (rewritten below)
	mk := func() (gossh.Signer, string) {
		pub, priv, _ := ed25519.GenerateKey(rand.Reader)
		sg, _ := gossh.NewSignerFromKey(priv)
		sp, _ := gossh.NewPublicKey(pub)
		return sg, string(gossh.MarshalAuthorizedKey(sp))
	}
	keys := map[string]gossh.Signer{}
	var lineA string
	keys["A"], lineA = mk()
	keys["B"], _ = mk()
	keys["C"], _ = mk()
	os.WriteFile(filepath.Join(dir, "cache", "alice.authorized_keys"), []byte("# alice's keys\n"+lineA), 0644)
	users := map[string]string{"other": "alice", "nofile": "vnofile", "health": config.HealthUser, "schedule": config.ScheduleUser, "continuous": config.ContinuousUser}
	pws := map[string]string{"HEALTHPW": config.HealthUser, "job1": "nightly-errors", "job2": "weekly report", "job3": "watch-oom", "jobX": "shared name", "wrong": "letmein", "": ""}
	var j1, j2, jx config.Scheduled
	j1.Name, j1.AllowFrom, j1.Enable = pws["job1"], []string{"127.0.0.1", "2001:db8::7"}, false
	j2.Name, j2.AllowFrom, j2.Enable = pws["job2"], []string{"10.1.2.3", "127.0.0.1"}, false
	jx.Name, jx.AllowFrom, jx.Enable = pws["jobX"], []string{"10.1.2.3"}, false
	var j3, jy config.Continuous
	j3.Name, j3.AllowFrom, j3.Enable = pws["job3"], []string{"10.1.2.3"}, false
	jy.Name, jy.AllowFrom, jy.Enable = pws["jobX"], []string{"127.0.0.1"}, false
	config.Server.Schedule = []config.Scheduled{j1, j2, jx}
	config.Server.Continuous = []config.Continuous{j3, jy}
	secret := filepath.Join(dir, "secret.log")
	os.WriteFile(secret, []byte("SECRETCONTENT 1\nSECRETCONTENT 2\n"), 0644)
	srv := c14Start(t, 50)
	defer srv.cancel()
	type bad struct {
		Case    c09WireCase `json:"case"`
		Granted bool        `json:"granted"`
		Note    string      `json:"note"`
	}
	var bads []bad
	evals := 0
	for _, c := range cases {
		var auth []gossh.AuthMethod
		switch c.Method {
		case "none":
		case "kbd":
			auth = append(auth, gossh.KeyboardInteractive(func(user, instruction string, questions []string, echos []bool) ([]string, error) {
				ans := make([]string, len(questions))
				for i := range ans {
					ans[i] = pws[c.Cred]
				}
				return ans, nil
			}))
		case "key":
			auth = append(auth, gossh.PublicKeys(keys[c.Cred]))
		case "password":
			auth = append(auth, gossh.Password(pws[c.Cred]))
		}
		cfg := &gossh.ClientConfig{User: users[c.User], Auth: auth, HostKeyCallback: gossh.InsecureIgnoreHostKey(), Timeout: 5 * time.Second}
		granted, note := false, ""
		cl, err := gossh.Dial("tcp", srv.addr, cfg)
		if err == nil {
			// the handshake went through: is a session served?
			var ch gossh.Channel
			var reqs <-chan *gossh.Request
			served := c14Within(5*time.Second, func() {
				var e error
				if ch, reqs, e = cl.OpenChannel("session", nil); e != nil {
					err = e
					return
				}
				go gossh.DiscardRequests(reqs)
				if ok, e := ch.SendRequest("shell", true, nil); e != nil || !ok {
					err = fmt.Errorf("shell request: ok=%v err=%v", ok, e)
				}
			})
			granted = served && err == nil
			if granted && c.User == "health" {
				// a health session must not hand out file content
				payload := fmt.Sprintf("cat:quiet=true %s regex:noop ", secret)
				ch.Write([]byte(fmt.Sprintf("protocol 4.1 base64 %s;", base64.StdEncoding.EncodeToString([]byte(payload)))))
				got := make(chan string, 1)
				go func() {
					buf := make([]byte, 65536)
					var sb strings.Builder
					for dl := time.Now().Add(1500 * time.Millisecond); time.Now().Before(dl); {
						n, e := ch.Read(buf)
						sb.Write(buf[:n])
						if e != nil {
							break
						}
					}
					got <- sb.String()
				}()
				select {
				case out := <-got:
					if strings.Contains(out, "SECRETCONTENT") {
						note = "the health session delivered the content of a file"
					}
				case <-time.After(2500 * time.Millisecond):
				}
			}
			cl.Close()
		}
		evals++
		if granted != c.Ref || note != "" {
			if note == "" && err != nil {
				note = err.Error()
			}
			bads = append(bads, bad{c, granted, note})
		}
	}
	vWriteJSON(t, "VERIF_OUT", map[string]interface{}{"evaluations": evals, "bad": bads})
}
