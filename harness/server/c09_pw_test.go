package server

// C09 harness, password callback: every (user, password, source address) case enumerated by TLC goes through the
// real Server.Callback() with a job table configured as in spec/Auth.tla.

import (
	"strings"
	"net"
	"testing"

	"github.com/mimecast/dtail/internal/config"
)

type c09PwCase struct {
	User string `json:"user"`
	Pw   string `json:"pw"`
	Addr string `json:"addr"`
	Ref  bool   `json:"ref"`
	Must bool   `json:"must"` // false: a grant is permitted by the Ref but not demanded (listed IPv6 source)
}

type c09PwMeta struct {
	user string
	addr string
}

func (m c09PwMeta) User() string          { return m.user }
func (m c09PwMeta) SessionID() []byte     { return []byte("s") }
func (m c09PwMeta) ClientVersion() []byte { return []byte("c") }
func (m c09PwMeta) ServerVersion() []byte { return []byte("s") }
func (m c09PwMeta) RemoteAddr() net.Addr  { a, _ := net.ResolveTCPAddr("tcp", m.addr); return a }
func (m c09PwMeta) LocalAddr() net.Addr   { a, _ := net.ResolveTCPAddr("tcp", "127.0.0.1:2222"); return a }

func TestC09Password(t *testing.T) {
	vInit("none")
	var cases []c09PwCase
	vReadJSON(t, "VERIF_CASES", &cases)
	ips := map[string]string{"ip1": "127.0.0.1", "ip2": "10.1.2.30", "ip2p": "10.1.2.3", "ip1x": "127.0.0.10", "ipz": "192.168.7.7", "ip6l": "[2001:db8::7]", "ip6u": "[2001:db8::99]"}
	users := map[string]string{"health": config.HealthUser, "schedule": config.ScheduleUser, "continuous": config.ContinuousUser, "other": "alice",
		"healthcase": strings.ToLower(config.HealthUser), "schedulecase": strings.Title(strings.ToLower(config.ScheduleUser))}
	pws := map[string]string{"HEALTHPW": config.HealthUser, "job1": "nightly-errors", "job2": "weekly report", "job3": "watch-oom", "jobX": "shared name", "wrong": "letmein", "": ""}
	var j1, j2, jx config.Scheduled
	j1.Name, j1.AllowFrom, j1.Enable = pws["job1"], []string{ips["ip1"], "2001:db8::7"}, true
	j2.Name, j2.AllowFrom, j2.Enable = pws["job2"], []string{ips["ip2"], ips["ip1"]}, true
	jx.Name, jx.AllowFrom, jx.Enable = pws["jobX"], []string{ips["ip2"]}, true
	var j3, jy config.Continuous
	j3.Name, j3.AllowFrom, j3.Enable = pws["job3"], []string{ips["ip2"]}, true
	jy.Name, jy.AllowFrom, jy.Enable = pws["jobX"], []string{ips["ip1"]}, true
	config.Server.Schedule = []config.Scheduled{j1, j2, jx}
	config.Server.Continuous = []config.Continuous{j3, jy}
	s := &Server{}
	type bad struct {
		Case    c09PwCase `json:"case"`
		Granted bool      `json:"granted"`
	}
	var bads []bad
	for _, c := range cases {
		for _, port := range []string{"40001", "1", "65000"} {
			_, err := s.Callback(c09PwMeta{users[c.User], ips[c.Addr] + ":" + port}, []byte(pws[c.Pw]))
			granted := err == nil
			if (granted && !c.Ref) || (c.Must && granted != c.Ref) {
				bads = append(bads, bad{c, granted})
				break
			}
		}
	}
	// histories of two logins on one server: the first decision must not influence the second
	type bad2 struct {
		First   c09PwCase `json:"first"`
		Case    c09PwCase `json:"case"`
		Granted bool      `json:"granted"`
	}
	var bads2 []bad2
	pairs := 0
	for _, a := range cases {
		for _, c := range cases {
			s2 := &Server{}
			s2.Callback(c09PwMeta{users[a.User], ips[a.Addr] + ":40001"}, []byte(pws[a.Pw]))
			_, err := s2.Callback(c09PwMeta{users[c.User], ips[c.Addr] + ":40002"}, []byte(pws[c.Pw]))
			pairs++
			if (((err == nil) && !c.Ref) || (c.Must && (err == nil) != c.Ref)) && len(bads2) < 20 {
				bads2 = append(bads2, bad2{a, c, err == nil})
			}
		}
	}
	vWriteJSON(t, "VERIF_OUT", map[string]interface{}{"evaluations": len(cases)*3 + pairs, "bad": bads, "bad2": bads2, "pairs": pairs})
}
