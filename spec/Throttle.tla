------------------------------ MODULE Throttle ------------------------------
(* C18 (connection throttle) - the client establishes at most K connections at the same time, and the throttle    *)
(* never keeps a listed server from being contacted.                                                                *)
(* Code: internal/clients/connectors/serverconnection.go Start() (a slot is taken from throttleCh before the dial), *)
(* handle() (the slot is given back once the session is up and the commands are sent), the deferred function in     *)
(* Start() (the slot is given back when the dial failed), internal/clients/baseclient.go (retry every 2 s when the  *)
(* client runs in retry mode), internal/ssh/client/knownhostscallback.go (the slot is lent back while the user is   *)
(* asked about an unknown host - C17's subject, not modelled here).                                                 *)
EXTENDS Integers, FiniteSets, TLC
CONSTANTS Servers,         \* the entries of the server list
          Live,            \* those that answer (the others refuse the connection or fail the handshake)
          K,               \* throttle slots = ConnectionsPerCPU x NumCPU
          Retry,           \* the client dials a server whose connection is over again (dtail) or not (dcat, dgrep, dmap)
          KF_FailKeepsSlot \* deviation (seeded, not in the code): the slot of a dial that failed is not given back
VARIABLES st, slots, contacted
vars == <<st, slots, contacted>>
Init == /\ st = [s \in Servers |-> "waiting"] /\ slots = 0 /\ contacted = {}
\* Start(): throttleCh <- struct{}{}
Take(s) == /\ st[s] = "waiting" /\ slots < K
           /\ st' = [st EXCEPT ![s] = "dialing"] /\ slots' = slots + 1 /\ UNCHANGED contacted
\* dial(), session(), handle(): the session is up, the commands are sent, the slot is given back
Established(s) == /\ st[s] = "dialing" /\ s \in Live
                  /\ st' = [st EXCEPT ![s] = "up"] /\ slots' = slots - 1 /\ contacted' = contacted \cup {s}
\* dial() returns an error: refused, handshake failed, not trusted
Fail(s) == /\ st[s] = "dialing" /\ s \notin Live
           /\ st' = [st EXCEPT ![s] = "failed"] /\ slots' = (IF KF_FailKeepsSlot THEN slots ELSE slots - 1) /\ UNCHANGED contacted
\* the session of an established connection ends (the server closed it, the network dropped it): Start() returns
\* (the environment's step: no fairness)
SessionEnd(s) == /\ st[s] = "up"
                 /\ st' = [st EXCEPT ![s] = "ended"] /\ UNCHANGED <<slots, contacted>>
\* baseclient.startConnection: in retry mode the connection is made again after 2 s - for the same server, whether the
\* dial had failed or the session has ended; otherwise the server's goroutine is done
Again(s) == /\ Retry /\ st[s] \in {"failed", "ended"}
            /\ st' = [st EXCEPT ![s] = "waiting"] /\ UNCHANGED <<slots, contacted>>
Next == \E s \in Servers : Take(s) \/ Established(s) \/ Fail(s) \/ SessionEnd(s) \/ Again(s)
\* Senders blocked on a Go channel are served in FIFO order: a server waiting for a slot gets one although slots are free
\* only now and then (strong fairness of Take); the other steps are ordinary progress.
Spec == Init /\ [][Next]_vars /\ \A s \in Servers : SF_vars(Take(s)) /\ WF_vars(Established(s)) /\ WF_vars(Fail(s)) /\ WF_vars(Again(s))

\* ---- Ref
Dialing == {s \in Servers : st[s] = "dialing"}
AtMostK == Cardinality(Dialing) <= K
SlotsMatch == slots = Cardinality(Dialing)
\* the throttle delays, it never excludes: every server that answers is contacted, however many others fail
EveryLiveContacted == \A s \in Live : <>(s \in contacted)
\* retry mode: a server whose session ended is connected again (it stays in the wanted set) ...
ReconnectKeeps == Retry => \A s \in Live : [](st[s] = "ended" => <>(st[s] = "up"))
\* ... and without retry nobody is dialled twice: the client is done when every server's connection is over
NoRetryOnce == [][~Retry => \A s \in Servers : st[s] \in {"failed", "ended"} => st'[s] = st[s]]_vars
==============================================================================
