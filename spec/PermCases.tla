------------------------------ MODULE PermCases ------------------------------
EXTENDS Perm, Json, SequencesExt
\* (A) per rule list: the Ref verdict for every request, and the verdict the Impl model predicts
Cases == {[rules |-> rl, served |-> {q \in Paths : RefServed(rl, q)}, impl |-> {q \in Paths : ImplServed(rl, q)}] : rl \in RuleLists}
ASSUME ndJsonSerialize("c08_cases.ndjson", SetToSeq(Cases))
==============================================================================
