--------------------------- MODULE MaprAlgebraCases ---------------------------
EXTENDS MaprAlgebra, Json
\* (A) printed once per explored state (invariant Emit): the case, the rows of the central evaluation (Ref), the rows the
\* Impl model predicts, and the values / lengths a 'last' / 'len' column may legitimately show
RowOf(has, r) == [has |-> has, cnt |-> r.cnt, s |-> r.s, x |-> r.x, n |-> r.n]
CaseRec == [lines |-> [i \in 1..Len(lines) |-> [g |-> lines[i].g, k |-> lines[i].v.k, n |-> lines[i].v.n]],
            part |-> part, withCount |-> withCount, op |-> op, accumulate |-> accumulate, wh |-> wh,
            central |-> [g \in Groups |-> RowOf(CentralHas(g), Central(g))],
            impl |-> [g \in Groups |-> RowOf(DistHas(g), Dist(g))],
            vals |-> [g \in Groups |-> ValsOf(g)], lens |-> [g \in Groups |-> LensOf(g)]]
Emit == PrintT(ToJson(CaseRec))
===============================================================================
