---- MODULE MC_Throttle ----
EXTENDS Throttle
MCServers == {1, 2, 3, 4, 5}
MCLive == {1, 2, 3}
====
