--------------------------- MODULE ThrottleTrace ---------------------------
(* Trace validation for C18's throttle: the servers of the harness (real SSH servers in the test process, one event   *)
(* log under one lock) record what a real dtail client does to them:                                                  *)
(*   accept s    a TCP connection of the client arrived at server s            (the client took the slot before)      *)
(*   up s        server s got the shell request of a session, before answering (the client gives the slot back after) *)
(*   fail s      server s is about to drop the connection in the handshake      (the client gives the slot back after) *)
(*   drop s      server s is about to close an established session              (the client dials s again after 2 s)   *)
(* A slot is therefore held at least from "accept" to "up"/"fail": Take is placed at the accept event (later than in   *)
(* the client) and the release at up/fail (earlier than in the client), so the model's occupancy is a lower bound of   *)
(* the client's.  A trace in which more than K connections are between accept and up/fail at once is rejected.         *)
EXTENDS Throttle, Json, Sequences
CONSTANT TraceFile
Tr == ndJsonDeserialize(TraceFile)
VARIABLE l
tvars == <<vars, l>>
Ev == Tr[l]
IsEv(name) == l <= Len(Tr) /\ Ev.ev = name /\ Ev.s \in Servers /\ l' = l + 1
\* a server whose earlier connection is over is dialled again (retry mode): Again happened in the client.  A connection
\* arriving at a server whose session is still up is NOT a behaviour: the client never holds two connections to one server.
Redial(s) == st[s] \in {"failed", "ended"} /\ Retry
TAccept == IsEv("accept") /\ LET s == Ev.s IN
              /\ st[s] \in {"waiting"} \/ Redial(s)
              /\ slots < K
              /\ st' = [st EXCEPT ![s] = "dialing"] /\ slots' = slots + 1 /\ UNCHANGED contacted
TUp     == IsEv("up") /\ Established(Ev.s)
TFail   == IsEv("fail") /\ Fail(Ev.s)
TDrop   == IsEv("drop") /\ SessionEnd(Ev.s)
TInit == Init /\ l = 1
TNext == TAccept \/ TUp \/ TFail \/ TDrop
TSpec == TInit /\ [][TNext]_tvars
Report == (l = Len(Tr) + 1) => PrintT(<<"ACCEPTED", contacted = Live, Cardinality(contacted)>>)
Progress == PrintT(<<"REACHED", l>>)
=============================================================================
