----------------------------- MODULE MaprAlgebra -----------------------------
(* C05 - the distributed mapreduce result equals the central evaluation of the query.        *)
(* Code: mapr/server/aggregate.go aggregate()/aggregateAndSerialize(), mapr/aggregateset.go      *)
(* Aggregate()/Serialize()/Merge(), mapr/client/aggregate.go Aggregate(), mapr/groupset.go        *)
(* result().  Integer-valued (sums stay exact, avg is kept as the pair sum/samples).              *)
(* A query is  select [count(l),] OP(v) [where v >= 0] group by g ; a line has a group value g and *)
(* a field v that is missing, non-numeric or a number; l is a field every line has.               *)
EXTENDS Integers, Sequences, FiniteSets, TLC
CONSTANTS MaxLines, Ops,
          ExtraTables,         \* further (longer) tables to explore besides all tables of up to MaxLines lines
          KF_MergeMissingKey   \* named deviation: AggregateSet.Merge() reads set.FValues[storage] / SValues[storage] with Go's
                               \* zero default, so a partial result that never saw the field contributes 0 (min/max) or "" (last)

NoF == [has |-> FALSE, x |-> 0]
NoS == [has |-> FALSE, s |-> ""]
FV(x) == [has |-> TRUE, x |-> x]
SV(t) == [has |-> TRUE, s |-> t]
Groups == {"a", "b", "c"}          \* the exhaustive tables use "a" and "b"; the extra tables (ordering, limit) all three
Vals == {[k |-> "none", n |-> 0], [k |-> "nan", n |-> 0]} \cup {[k |-> "num", n |-> x] : x \in {-1, 0, 2}}
Numeric(v) == v.k = "num"
\* the field as text (last(), len()); numbers beyond the small alphabet come from the extra tables (magnitudes at which
\* Go's %v switches to exponent notation when partial results are serialised: 1e+06 ...)
Str(v) == IF v.k = "nan" THEN "x" ELSE ToString(v.n)
RECURSIVE Digits(_)
Digits(n) == IF n < 10 THEN 1 ELSE 1 + Digits(n \div 10)
SLen(v) == IF v.k # "num" THEN 1 ELSE IF v.n < 0 THEN 1 + Digits(0 - v.n) ELSE Digits(v.n)
LineT == [g : {"a", "b"}, v : Vals]
Empty == [samples |-> 0, F |-> [i \in 1..2 |-> NoF], S |-> [i \in 1..2 |-> NoS]]
Min2(a, b) == IF a < b THEN a ELSE b
Max2(a, b) == IF a > b THEN a ELSE b
AddF(s, i, x) == [s EXCEPT !.F[i] = IF ~@.has THEN FV(x) ELSE FV(@.x + x)]
MinF(s, i, x) == [s EXCEPT !.F[i] = IF ~@.has THEN FV(x) ELSE FV(Min2(@.x, x))]
MaxF(s, i, x) == [s EXCEPT !.F[i] = IF ~@.has THEN FV(x) ELSE FV(Max2(@.x, x))]

\* WhereClause for 'where v >= 0': a missing or non-numeric field fails the condition
Passes(ln, wh) == ~wh \/ (Numeric(ln.v) /\ ln.v.n >= 0)

\* server: aggregate() + AggregateSet.Aggregate(clientAggregation = false), one line
SrvItem2(s, op, v) ==
  CASE op = "count" -> [set |-> AddF(s, 2, 1), ok |-> TRUE]
    [] op = "last"  -> [set |-> [s EXCEPT !.S[2] = SV(Str(v))], ok |-> TRUE]
    [] op = "len"   -> [set |-> [s EXCEPT !.S[2] = SV(Str(v)), !.F[2] = FV(SLen(v))], ok |-> TRUE]
    [] ~Numeric(v)  -> [set |-> s, ok |-> FALSE]                      \* ParseFloat error
    [] op \in {"sum", "avg"} -> [set |-> AddF(s, 2, v.n), ok |-> TRUE]
    [] op = "min"   -> [set |-> MinF(s, 2, v.n), ok |-> TRUE]
    [] op = "max"   -> [set |-> MaxF(s, 2, v.n), ok |-> TRUE]
SrvLine(s, withCount, op, ln) ==
  LET s1 == IF withCount THEN AddF(s, 1, 1) ELSE s
      r2 == IF ln.v.k = "none" THEN [set |-> s1, ok |-> FALSE] ELSE SrvItem2(s1, op, ln.v)
      added == withCount \/ r2.ok
  IN [r2.set EXCEPT !.samples = IF added THEN @ + 1 ELSE @]
RECURSIVE SrvAll(_, _, _, _)
SrvAll(s, withCount, op, ls) == IF ls = <<>> THEN s ELSE SrvAll(SrvLine(s, withCount, op, Head(ls)), withCount, op, Tail(ls))

\* Serialize + client Aggregate(clientAggregation = true) of one message into the per-server local set
CliMsg(loc, withCount, op, m) ==
  LET l1 == IF withCount /\ m.F[1].has THEN AddF(loc, 1, m.F[1].x) ELSE loc
      has2 == m.F[2].has \/ m.S[2].has
      l2 == IF ~has2 THEN l1
            ELSE CASE op = "count" -> AddF(l1, 2, m.F[2].x)
                   [] op = "last" -> [l1 EXCEPT !.S[2] = m.S[2]]
                   [] op = "len"  -> [l1 EXCEPT !.S[2] = m.S[2], !.F[2] = m.F[2]]
                   [] op \in {"sum", "avg"} -> AddF(l1, 2, m.F[2].x)
                   [] op = "min" -> MinF(l1, 2, m.F[2].x)
                   [] op = "max" -> MaxF(l1, 2, m.F[2].x)
      added == (withCount /\ m.F[1].has) \/ has2
  IN [l2 EXCEPT !.samples = IF added THEN @ + m.samples ELSE @]

\* AggregateSet.Merge(): with the deviation a missing key is read as Go's zero value
Z(f) == IF f.has THEN f.x ELSE 0
ZS(t) == IF t.has THEN t.s ELSE ""
Merge(g, set, withCount, op) ==
  LET g0 == [g EXCEPT !.samples = @ + set.samples]
      g1 == IF withCount /\ (KF_MergeMissingKey \/ set.F[1].has) THEN AddF(g0, 1, Z(set.F[1])) ELSE g0
      present == IF op \in {"last"} THEN set.S[2].has ELSE set.F[2].has
  IN IF ~KF_MergeMissingKey /\ ~present THEN g1
     ELSE CASE op \in {"count", "sum", "avg"} -> AddF(g1, 2, Z(set.F[2]))
            [] op = "min" -> MinF(g1, 2, Z(set.F[2]))
            [] op = "max" -> MaxF(g1, 2, Z(set.F[2]))
            [] op = "last" -> [g1 EXCEPT !.S[2] = SV(ZS(set.S[2]))]
            [] op = "len" -> [g1 EXCEPT !.S[2] = SV(ZS(set.S[2])), !.F[2] = FV(Z(set.F[2]))]

\* result row (groupset.go resultSelect); avg kept as the pair (sum, samples)
Row(s, withCount, op) ==
  [cnt |-> IF withCount THEN Z(s.F[1]) ELSE 0,
   s |-> IF op = "last" THEN ZS(s.S[2]) ELSE "", x |-> IF op = "last" THEN 0 ELSE Z(s.F[2]), n |-> IF op = "avg" THEN s.samples ELSE 0]


\* ---- ordering and limit (groupset.go resultOrderBy(), the loops of Result() / resultWriteUnformatted()).  "order by X"
\* sorts the rows by column X with the largest first, "rorder by X" with the smallest first; "limit N" keeps the first N
\* rows.  Only the choice among tied rows may differ.  `out` is the sequence of group keys of the rows that were output,
\* key[g] = <<num, den>> the central value of the order column for group g (a fraction, so that avg stays exact).
Less(p, q) == p[1] * q[2] < q[1] * p[2]            \* p < q for fractions with positive denominators
MinI(a, b) == IF a < b THEN a ELSE b
RowsAcceptable(out, key, ord, lim) ==
  LET all == DOMAIN key
      n == Cardinality(all)
      want == IF lim < 0 THEN n ELSE MinI(lim, n)
      inOut == {out[i] : i \in 1..Len(out)}
      Before(p, q) == IF ord = "order" THEN Less(q, p) ELSE Less(p, q)    \* p must come strictly before q
  IN /\ Len(out) = want /\ Cardinality(inOut) = Len(out) /\ inOut \subseteq all
     /\ ord # "" => /\ (\A i, j \in 1..Len(out) : i < j => ~Before(key[out[j]], key[out[i]]))
                     /\ (\A g \in all \ inOut : \A k \in 1..Len(out) : ~Before(key[g], key[out[k]]))
\* Impl: the rows are collected in the iteration order of a Go map (any permutation), sorted with a stable sort, cut
ImplOrderOK(key, ord, lim) ==
  \A perm \in {p \in [1..Cardinality(DOMAIN key) -> DOMAIN key] : \A i, j \in DOMAIN p : i # j => p[i] # p[j]} :
     LET n == Cardinality(DOMAIN key)
         Before(p, q) == IF ord = "order" THEN Less(q, p) ELSE Less(p, q)
         \* position of perm[i] after a stable sort: elements strictly before it, plus equal ones that stood before it
         Pos(i) == 1 + Cardinality({j \in 1..n : Before(key[perm[j]], key[perm[i]]) \/ (~Before(key[perm[i]], key[perm[j]]) /\ j < i)})
         sorted == IF ord = "" THEN perm ELSE [k \in 1..n |-> perm[CHOOSE i \in 1..n : Pos(i) = k]]
         want == IF lim < 0 THEN n ELSE MinI(lim, n)
     IN RowsAcceptable(SubSeq(sorted, 1, want), key, ord, lim)

VARIABLES lines, part, withCount, op, accumulate, wh
vars == <<lines, part, withCount, op, accumulate, wh>>
Tables == UNION {[1..n -> LineT] : n \in 1..MaxLines}
\* parts 1 and 2 are two files / two serialisation intervals of server 1, part 3 is server 2
Init == /\ lines \in (Tables \cup ExtraTables) /\ part \in [1..Len(lines) -> 1..3]
        /\ withCount \in BOOLEAN /\ op \in Ops /\ accumulate \in BOOLEAN /\ wh \in BOOLEAN
Next == UNCHANGED vars
Spec == Init /\ [][Next]_vars

Sel(ls, g, p) == LET idx == {i \in 1..Len(ls) : ls[i].g = g /\ (p = 0 \/ part[i] = p) /\ Passes(ls[i], wh)}
                     RECURSIVE Build(_)
                     Build(i) == IF i > Len(ls) THEN <<>> ELSE (IF i \in idx THEN <<ls[i]>> ELSE <<>>) \o Build(i + 1)
                 IN Build(1)
NonEmptyMsg(m) == \E i \in 1..2 : m.F[i].has \/ m.S[i].has     \* the client rejects a message without any key-value pair
Msg(g, p) == SrvAll(Empty, withCount, op, Sel(lines, g, p))
HasMsg(g, p) == Sel(lines, g, p) # <<>> /\ NonEmptyMsg(Msg(g, p))
\* ---- Ref: one evaluation over all lines
Central(g) == Row(SrvAll(Empty, withCount, op, Sel(lines, g, 0)), withCount, op)
CentralHas(g) == Sel(lines, g, 0) # <<>> /\ NonEmptyMsg(SrvAll(Empty, withCount, op, Sel(lines, g, 0)))
\* ---- Impl: per part a message, per server a local set, merges into the global set
Dist(g) ==
  LET C(loc, p) == IF HasMsg(g, p) THEN CliMsg(loc, withCount, op, Msg(g, p)) ELSE loc
      M(glob, loc) == IF loc = Empty THEN glob ELSE Merge(glob, loc, withCount, op)
      s1 == IF accumulate THEN M(Empty, C(C(Empty, 1), 2))            \* message 1 waited in the local set (merge skipped)
            ELSE M(M(Empty, C(Empty, 1)), C(Empty, 2))
  IN Row(M(s1, C(Empty, 3)), withCount, op)
DistHas(g) == \E p \in 1..3 : HasMsg(g, p)
GroupsPresent == {lines[i].g : i \in 1..Len(lines)}
ValsOf(g) == {Str(lines[i].v) : i \in {j \in 1..Len(lines) : lines[j].g = g /\ lines[j].v.k # "none" /\ Passes(lines[j], wh)}}
LensOf(g) == {SLen(lines[i].v) : i \in {j \in 1..Len(lines) : lines[j].g = g /\ lines[j].v.k # "none" /\ Passes(lines[j], wh)}}
\* only the choice among last / len values may differ
Same(g) == IF op = "last" THEN Dist(g).cnt = Central(g).cnt /\ (ValsOf(g) # {} => Dist(g).s \in ValsOf(g))
           ELSE IF op = "len" THEN Dist(g).cnt = Central(g).cnt /\ (LensOf(g) # {} => Dist(g).x \in LensOf(g))
           ELSE Dist(g) = Central(g)
DistEqualsCentral == \A g \in GroupsPresent : (CentralHas(g) = DistHas(g)) /\ (CentralHas(g) => Same(g))
==============================================================================
