---------------------------- MODULE SessionSched ----------------------------
(* Behaviour generator for C02: records the order of the steps the replay harness controls - delivering *)
(* command k to the server ("send") and one iteration of the server->client copy loop ("read") - and   *)
(* prints it when the session has terminated.  Used with TLC -simulate.                                *)
EXTENDS Session, Json
VARIABLE hist
svars == <<vars, hist>>
SInit == Init /\ hist = <<>>
SNext == \/ ServerRecvCmd /\ hist' = Append(hist, [a |-> "send", k |-> Head(cmdWire)])
         \/ (ServerReadLine \/ ServerReadMsg) /\ hist' = Append(hist, [a |-> "read", k |-> 0])
         \/ (ClientSend \/ FlushDrained \/ KFFlushGiveUp \/ SynEnqueue \/ ClientPrint \/ ClientSyn \/ ConsumerRead
             \/ \E c \in 1..K : CmdFinish(c) \/ \E f \in Files(c) : ReaderStep(c, f)) /\ UNCHANGED hist
SSpec == SInit /\ [][SNext]_svars
EmitSched == Terminated => PrintT(ToJson([sched |-> hist]))
=============================================================================
