---- MODULE MC_Limiter ----
EXTENDS Limiter
MCReads3 == {1, 2, 3}
MCReads4 == {1, 2, 3, 4}
MCReads5 == {1, 2, 3, 4, 5}
OwnSess  == [r \in MCReads5 |-> r]
PairSess == [r \in MCReads5 |-> IF r <= 2 THEN 1 ELSE r]
NoFails == {}
Fail2 == {2}
Fail23 == {2, 3}
====
