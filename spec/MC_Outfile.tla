---- MODULE MC_Outfile ----
EXTENDS Outfile, Json
NonAppend3 == << [append |-> FALSE, final |-> FALSE, rows |-> 1], [append |-> FALSE, final |-> TRUE, rows |-> 2], [append |-> FALSE, final |-> TRUE, rows |-> 1] >>
NonAppend2 == << [append |-> FALSE, final |-> TRUE, rows |-> 2], [append |-> FALSE, final |-> TRUE, rows |-> 1] >>
Append3 == << [append |-> TRUE, final |-> TRUE, rows |-> 1], [append |-> TRUE, final |-> TRUE, rows |-> 2], [append |-> TRUE, final |-> FALSE, rows |-> 1] >>
Append2 == << [append |-> TRUE, final |-> TRUE, rows |-> 1], [append |-> TRUE, final |-> TRUE, rows |-> 1] >>
EmitHist == r > NRuns => PrintT(ToJson([hist |-> hist]))
====
