------------------------------ MODULE Limiter ------------------------------
(* C13 - the server-wide read limiters (catLimiter / tailLimiter).             *)
(* Code: internal/server/handlers/readcommand.go read().                        *)
(* One action per channel operation / branch of the two nested selects and the  *)
(* deferred release.  The limiter is a buffered channel: tokens = len(limiter). *)
(* A session is whatever reads files through this server process: an SSH session  *)
(* of a client, and equally the session a scheduled or continuous job of the server *)
(* opens to the server itself (scheduler.go, continuous.go) - "server-wide" means   *)
(* one limiter for all of them (e2e.stage_scheduled); a session is cancelled when    *)
(* its connection ends, whatever requests were made on it (TestC13Wire).            *)
EXTENDS Integers, FiniteSets, Sequences, TLC
CONSTANTS Reads,                 \* the file reads (one goroutine each)
          Cap,                   \* capacity of the limiter channel (MaxConcurrentCats / MaxConcurrentTails)
          SessOf,                \* function Reads -> session id (a cancelled session cancels all its reads)
          Fails,                 \* subset of Reads whose file cannot be opened/decoded: the reader returns at once
          Rotatable,             \* subset of Reads that follow a file (tail mode): the file may be rotated away, the read then
                                 \* loops "sleep 2 s, try to open again" - keeping its slot, with no file open
          KF_CancelDrainsToken   \* named deviation: the deferred non-blocking receive also runs on the
                                 \* cancelled-while-waiting path and takes a token that belongs to another read

Sessions == {SessOf[r] : r \in Reads}
VARIABLES tokens, pc, cancelled
vars == <<tokens, pc, cancelled>>

PCs == {"idle", "entering", "waiting", "acqd", "holding", "retrying", "cancelled", "relbegin", "crel", "done"}
TypeOK == tokens \in 0..(Cap + Cardinality(Reads)) /\ pc \in [Reads -> PCs] /\ cancelled \in [Sessions -> BOOLEAN]

Init == tokens = 0 /\ pc = [r \in Reads |-> "idle"] /\ cancelled = [s \in Sessions |-> FALSE]

Set(r, v) == pc' = [pc EXCEPT ![r] = v]

\* ---- controllable from outside (client / harness)
Enter(r)  == pc[r] = "idle" /\ Set(r, "entering") /\ UNCHANGED <<tokens, cancelled>>        \* command received, read() called
Cancel(s) == ~cancelled[s] /\ cancelled' = [cancelled EXCEPT ![s] = TRUE] /\ UNCHANGED <<tokens, pc>>  \* handler.Shutdown() -> ctx cancelled
Finish(r) == pc[r] = "holding" /\ ~cancelled[SessOf[r]] /\ r \notin Fails /\ Set(r, "relbegin") /\ UNCHANGED <<tokens, cancelled>>  \* reader.Start returned at EOF (the consumer drained the session)

\* the followed file is removed / rotated away: the reader notices (truncation check at EOF), returns, and read() enters its retry loop
Rotate(r) == pc[r] = "holding" /\ r \in Rotatable /\ ~cancelled[SessOf[r]] /\ Set(r, "retrying") /\ UNCHANGED <<tokens, cancelled>>

\* ---- internal steps of read()
FastAcq(r)     == pc[r] = "entering" /\ tokens < Cap /\ tokens' = tokens + 1 /\ Set(r, "acqd") /\ UNCHANGED cancelled
CancelEnter(r) == pc[r] = "entering" /\ cancelled[SessOf[r]] /\ Set(r, "cancelled") /\ UNCHANGED <<tokens, cancelled>>
Wait(r)        == pc[r] = "entering" /\ tokens >= Cap /\ ~cancelled[SessOf[r]] /\ Set(r, "waiting") /\ UNCHANGED <<tokens, cancelled>>
SlowAcq(r)     == pc[r] = "waiting" /\ tokens < Cap /\ tokens' = tokens + 1 /\ Set(r, "acqd") /\ UNCHANGED cancelled
CancelWait(r)  == pc[r] = "waiting" /\ cancelled[SessOf[r]] /\ Set(r, "cancelled") /\ UNCHANGED <<tokens, cancelled>>
AbortHolding(r) == pc[r] = "holding" /\ cancelled[SessOf[r]] /\ Set(r, "relbegin") /\ UNCHANGED <<tokens, cancelled>>  \* reader aborts on ctx.Done
AbortRetry(r)  == pc[r] = "retrying" /\ cancelled[SessOf[r]] /\ Set(r, "relbegin") /\ UNCHANGED <<tokens, cancelled>>   \* ctx.Done seen in the retry loop
FailFinish(r)  == pc[r] = "holding" /\ r \in Fails /\ Set(r, "relbegin") /\ UNCHANGED <<tokens, cancelled>>   \* reader.Start returned an error
Acquired(r)    == pc[r] = "acqd" /\ Set(r, "holding") /\ UNCHANGED <<tokens, cancelled>>    \* file is opened from here on
\* the cancelled paths return; with the deviation the deferred release runs for them too
CancelledExit(r) == pc[r] = "cancelled" /\ Set(r, IF KF_CancelDrainsToken THEN "crel" ELSE "done") /\ UNCHANGED <<tokens, cancelled>>
\* deferred: select { case <-limiter: default: }
Release(r)     == pc[r] \in {"relbegin", "crel"} /\ tokens' = (IF tokens > 0 THEN tokens - 1 ELSE 0) /\ Set(r, "done") /\ UNCHANGED cancelled

Internal(r) == FastAcq(r) \/ CancelEnter(r) \/ Wait(r) \/ SlowAcq(r) \/ CancelWait(r) \/ Acquired(r) \/ AbortHolding(r) \/ AbortRetry(r) \/ FailFinish(r) \/ CancelledExit(r) \/ Release(r)
InternalEnabled == \E r \in Reads : ENABLED Internal(r)

Stutter == (\A r \in Reads : pc[r] = "done") /\ UNCHANGED vars
Next == Stutter \/ (\E r \in Reads : Enter(r) \/ Finish(r) \/ Rotate(r) \/ Internal(r)) \/ (\E s \in Sessions : Cancel(s))

Spec == Init /\ [][Next]_vars
          /\ \A r \in Reads : /\ WF_vars(Enter(r)) /\ WF_vars(Finish(r)) /\ WF_vars(FastAcq(r)) /\ WF_vars(Wait(r))
                              /\ WF_vars(SlowAcq(r)) /\ WF_vars(CancelWait(r)) /\ WF_vars(CancelEnter(r))
                              /\ WF_vars(Acquired(r)) /\ WF_vars(AbortHolding(r)) /\ WF_vars(AbortRetry(r)) /\ WF_vars(FailFinish(r)) /\ WF_vars(CancelledExit(r)) /\ WF_vars(Release(r))

\* ---- Ref (C13), written from the statement
Holders   == {r \in Reads : pc[r] \in {"acqd", "holding", "retrying", "relbegin"}}    \* reads that own a slot
Reading   == {r \in Reads : pc[r] = "holding"}                            \* files actually open
NeverOverLimit == Cardinality(Reading) <= Cap /\ Cardinality(Holders) <= Cap
TokensMatch    == tokens = Cardinality(Holders)     \* a cancelled waiter neither keeps a slot nor releases another read's slot
\* reads beyond the limit wait and each proceeds once a running read finishes
EveryReadEnds  == \A r \in Reads : <>(pc[r] = "done")
NoSlotLeft     == <>[](tokens = 0)
=============================================================================
