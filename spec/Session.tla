------------------------------ MODULE Session ------------------------------
(* C02 - every selected line is delivered before the session closes, at any pace.                *)
(* Code: clients/connectors (commands sent one by one through the handler's unbuffered channel),     *)
(* server/handlers serverhandler.go handleUserCommand() (activeCommands, one goroutine per command), *)
(* readcommand.go + io/fs (cat readers block on a full queue), basehandler.go flush()/shutdown()/     *)
(* Read() (Go's select over serverMessages / lines), clients/handlers basehandler.go                  *)
(* handleHiddenMessage() (.syn -> .ack + shutdown).                                                   *)
EXTENDS Integers, Sequences, FiniteSets, TLC
CONSTANTS Cmds,      \* sequence of commands, each a sequence of file lengths, e.g. <<<<0>>, <<2>>>>
          QCap,      \* capacity of the session's lines channel (100 in the code)
          MCap,      \* capacity of serverMessages (10 in the code)
          WCap,      \* messages in flight server -> client
          OutCap,    \* lines the stdout pipe holds before the client blocks
          KF_FlushGiveUp, \* named deviation: flush() returns after its bounded wait with queues non-empty
          KF_TimeoutFromFlush \* named deviation (repaired): the 5 s limit of the close handshake runs from the moment flush()
                          \* returned, although the last message may still be in the hands of the transport (a Write
                          \* blocked on a full SSH window, the rest of a long line in readBuf): the connection is closed
                          \* over undelivered data.  Repaired: the limit runs from the moment Read() handed out ".syn",
                          \* i.e. after the transport has written everything before it.

K == Len(Cmds)
Files(c) == 1..Len(Cmds[c])
VARIABLES sent, cmdWire, active, cmdState, rd, lines, smsgs,
          nFlush, nSynPending, wire, outbuf, delivered, cstate, done,
          pend,       \* the message Read() returned and the transport (io.Copy: channel.Write) has not written yet; <<>> or <<m>>
          closed,     \* the server closed the connection (shutdown enforced after the handshake limit)
          synEnq,     \* shutdown() has queued ".syn close connection" (the handshake is under way)
          synTaken    \* Read() has handed ".syn" to the transport
conn == <<pend, closed, synEnq, synTaken>>
vars == <<sent, cmdWire, active, cmdState, rd, lines, smsgs, nFlush, nSynPending, wire, outbuf, delivered, cstate, done, conn>>

Init == /\ sent = 0 /\ cmdWire = <<>> /\ active = 0
        /\ cmdState = [c \in 1..K |-> "unsent"]
        /\ rd = [c \in 1..K |-> [f \in Files(c) |-> 0]]
        /\ lines = <<>> /\ smsgs = <<>> /\ nFlush = 0 /\ nSynPending = 0
        /\ wire = <<>> /\ outbuf = 0
        /\ delivered = [c \in 1..K |-> [f \in Files(c) |-> 0]]
        /\ cstate = "run" /\ done = FALSE
        /\ pend = <<>> /\ closed = FALSE /\ synEnq = FALSE /\ synTaken = FALSE

\* client: connectors' "for _, command := range commands { SendMessage }" through the unbuffered commands channel
ClientSend == /\ cstate = "run" /\ sent < K /\ cmdWire = <<>>
              /\ sent' = sent + 1 /\ cmdWire' = <<sent + 1>>
              /\ UNCHANGED <<active, cmdState, rd, lines, smsgs, nFlush, nSynPending, wire, outbuf, delivered, cstate, done, conn>>

\* server: baseHandler.Write -> handleCommand -> handleUserCommand: incrementActiveCommands, go command.Start
ServerRecvCmd == /\ cmdWire # <<>> /\ ~done
                 /\ LET c == Head(cmdWire) IN
                      /\ cmdState' = [cmdState EXCEPT ![c] = "running"]
                      /\ active' = active + 1
                 /\ cmdWire' = <<>>
                 /\ UNCHANGED <<sent, rd, lines, smsgs, nFlush, nSynPending, wire, outbuf, delivered, cstate, done, conn>>

\* reader+filter of one file: cat mode blocks on a full queue (canSkipLines = FALSE)
ReaderStep(c, f) == /\ cmdState[c] = "running" /\ ~done
                    /\ rd[c][f] < Cmds[c][f] /\ Len(lines) < QCap
                    /\ lines' = Append(lines, <<c, f, rd[c][f] + 1>>)
                    /\ rd' = [rd EXCEPT ![c][f] = @ + 1]
                    /\ UNCHANGED <<sent, cmdWire, active, cmdState, smsgs, nFlush, nSynPending, wire, outbuf, delivered, cstate, done, conn>>

\* commandFinished(): decrementActiveCommands() is atomic.AddInt32(-1) followed by a separate atomic.LoadInt32; the
\* command whose load returns 0 runs shutdown() (flush first).  Two actions, so that TLC explores the window between
\* them (two commands both loading 0 -> two shutdowns; a command arriving in the window -> no shutdown yet).
CmdDec(c) == /\ cmdState[c] = "running"
             /\ \A f \in Files(c) : rd[c][f] = Cmds[c][f]
             /\ cmdState' = [cmdState EXCEPT ![c] = "dec"]
             /\ active' = active - 1
             /\ UNCHANGED <<sent, cmdWire, rd, lines, smsgs, nFlush, nSynPending, wire, outbuf, delivered, cstate, done, conn>>
CmdLoad(c) == /\ cmdState[c] = "dec"
              /\ cmdState' = [cmdState EXCEPT ![c] = "finished"]
              /\ nFlush' = IF active = 0 THEN nFlush + 1 ELSE nFlush
              /\ UNCHANGED <<sent, cmdWire, active, rd, lines, smsgs, nSynPending, wire, outbuf, delivered, cstate, done, conn>>
CmdFinish(c) == CmdDec(c) \/ CmdLoad(c)

FlushDrained == /\ nFlush > 0 /\ lines = <<>> /\ smsgs = <<>>
                /\ nFlush' = nFlush - 1 /\ nSynPending' = nSynPending + 1
                /\ UNCHANGED <<sent, cmdWire, active, cmdState, rd, lines, smsgs, wire, outbuf, delivered, cstate, done, conn>>

KFFlushGiveUp == /\ KF_FlushGiveUp /\ nFlush > 0 /\ (lines # <<>> \/ smsgs # <<>>)
                 /\ nFlush' = nFlush - 1 /\ nSynPending' = nSynPending + 1
                 /\ UNCHANGED <<sent, cmdWire, active, cmdState, rd, lines, smsgs, wire, outbuf, delivered, cstate, done, conn>>

\* shutdown(): go func() { serverMessages <- ".syn close connection" }
SynEnqueue == /\ nSynPending > 0 /\ Len(smsgs) < MCap /\ ~done
              /\ smsgs' = Append(smsgs, "syn") /\ nSynPending' = nSynPending - 1 /\ synEnq' = TRUE
              /\ UNCHANGED <<sent, cmdWire, active, cmdState, rd, lines, nFlush, wire, outbuf, delivered, cstate, done, pend, closed, synTaken>>

\* baseHandler.Read: select over the non-empty queues, Go picks any ready case.  The transport (server.go: io.Copy(channel,
\* handler)) calls Read, then Write, then Read again: with room on the wire both happen at once ...
ServerReadLine == /\ ~done /\ lines # <<>> /\ Len(wire) < WCap /\ pend = <<>>
                  /\ wire' = Append(wire, Head(lines)) /\ lines' = Tail(lines)
                  /\ UNCHANGED <<sent, cmdWire, active, cmdState, rd, smsgs, nFlush, nSynPending, outbuf, delivered, cstate, done, conn>>
ServerReadMsg == /\ ~done /\ smsgs # <<>> /\ Len(wire) < WCap /\ pend = <<>>
                 /\ wire' = Append(wire, <<"syn">>) /\ smsgs' = Tail(smsgs) /\ synTaken' = TRUE
                 /\ UNCHANGED <<sent, cmdWire, active, cmdState, rd, lines, nFlush, nSynPending, outbuf, delivered, cstate, done, pend, closed, synEnq>>
\* ... and when the wire is full (the SSH window is used up: the client does not read) the message Read() returned sits in
\* the blocked Write - it has left the queues flush() looks at, and it is not delivered yet
ServerTakeLine == /\ ~done /\ lines # <<>> /\ Len(wire) = WCap /\ pend = <<>>
                  /\ pend' = <<Head(lines)>> /\ lines' = Tail(lines)
                  /\ UNCHANGED <<sent, cmdWire, active, cmdState, rd, smsgs, nFlush, nSynPending, wire, outbuf, delivered, cstate, done, closed, synEnq, synTaken>>
ServerTakeMsg == /\ ~done /\ smsgs # <<>> /\ Len(wire) = WCap /\ pend = <<>>
                 /\ pend' = << <<"syn">> >> /\ smsgs' = Tail(smsgs) /\ synTaken' = TRUE
                 /\ UNCHANGED <<sent, cmdWire, active, cmdState, rd, lines, nFlush, nSynPending, wire, outbuf, delivered, cstate, done, closed, synEnq>>
ServerWrite == /\ ~done /\ pend # <<>> /\ Len(wire) < WCap
               /\ wire' = Append(wire, pend[1]) /\ pend' = <<>>
               /\ UNCHANGED <<sent, cmdWire, active, cmdState, rd, lines, smsgs, nFlush, nSynPending, outbuf, delivered, cstate, done, closed, synEnq, synTaken>>
\* shutdown(): no ".ack" within 5 s - "enforcing shutdown": done.Shutdown(), server.go closes the connection.  What the
\* transport holds is gone; what is on the wire (in the client's SSH window buffer) can still be read by the client.
ShutdownTimeout == /\ ~done /\ synEnq /\ (KF_TimeoutFromFlush \/ synTaken)
                   /\ done' = TRUE /\ closed' = TRUE /\ pend' = <<>>
                   /\ UNCHANGED <<sent, cmdWire, active, cmdState, rd, lines, smsgs, nFlush, nSynPending, wire, outbuf, delivered, cstate, synEnq, synTaken>>

\* client baseHandler.Write -> handleMessage: print (blocks while the pipe is full) or hidden .syn
ClientPrint == /\ cstate = "run" /\ wire # <<>> /\ Len(Head(wire)) = 3 /\ outbuf < OutCap
               /\ LET m == Head(wire) IN delivered' = [delivered EXCEPT ![m[1]][m[2]] = @ + 1]
               /\ outbuf' = outbuf + 1 /\ wire' = Tail(wire)
               /\ UNCHANGED <<sent, cmdWire, active, cmdState, rd, lines, smsgs, nFlush, nSynPending, cstate, done, conn>>
\* .syn: go SendMessage(".ack close connection"); h.Shutdown() -> connector terminate(): serverHandler.Shutdown(); cancel()
ClientSyn == /\ cstate = "run" /\ wire # <<>> /\ Len(Head(wire)) = 1
             /\ cstate' = "term" /\ done' = TRUE /\ wire' = Tail(wire)
             /\ UNCHANGED <<sent, cmdWire, active, cmdState, rd, lines, smsgs, nFlush, nSynPending, outbuf, delivered, conn>>

\* the connection was closed by the server and everything that had arrived is printed: the client ends
ClientEOF == /\ cstate = "run" /\ closed /\ wire = <<>>
             /\ cstate' = "term"
             /\ UNCHANGED <<sent, cmdWire, active, cmdState, rd, lines, smsgs, nFlush, nSynPending, wire, outbuf, delivered, done, conn>>
Terminated == cstate = "term"
ConsumerRead == /\ outbuf > 0 /\ outbuf' = outbuf - 1
                /\ UNCHANGED <<sent, cmdWire, active, cmdState, rd, lines, smsgs, nFlush, nSynPending, wire, delivered, cstate, done, conn>>

Stutter == Terminated /\ UNCHANGED vars
Next == \/ Stutter \/ ClientSend \/ ServerRecvCmd \/ FlushDrained \/ KFFlushGiveUp \/ SynEnqueue
        \/ ServerReadLine \/ ServerReadMsg \/ ServerTakeLine \/ ServerTakeMsg \/ ServerWrite \/ ShutdownTimeout
        \/ ClientPrint \/ ClientSyn \/ ClientEOF \/ ConsumerRead
        \/ \E c \in 1..K : CmdFinish(c) \/ \E f \in Files(c) : ReaderStep(c, f)

Fair == WF_vars(Next)
Spec == Init /\ [][Next]_vars /\ WF_vars(ClientSend) /\ WF_vars(ServerRecvCmd) /\ WF_vars(FlushDrained)
             /\ WF_vars(SynEnqueue) /\ WF_vars(ServerReadLine) /\ WF_vars(ServerReadMsg) /\ WF_vars(ClientPrint)
             /\ WF_vars(ClientSyn) /\ WF_vars(ConsumerRead) /\ WF_vars(ServerTakeLine) /\ WF_vars(ServerTakeMsg) /\ WF_vars(ServerWrite)
             /\ WF_vars(ClientEOF)      \* (no fairness for ShutdownTimeout: a timer that may or may not expire first)
             /\ \A c \in 1..K : WF_vars(CmdDec(c)) /\ WF_vars(CmdLoad(c)) /\ \A f \in Files(c) : WF_vars(ReaderStep(c, f))

\* Ref (C02): when the session has ended, every line of every requested file was printed exactly once
AllDelivered == Terminated => \A c \in 1..K : \A f \in Files(c) : delivered[c][f] = Cmds[c][f]
\* per-file order: the k-th printed line of a file is its k-th line (FIFO queues) - checked on the wire
InOrder == \A i \in 1..Len(wire) : Len(wire[i]) = 3 =>
              LET m == wire[i] IN m[3] = delivered[m[1]][m[2]] + Cardinality({j \in 1..i : Len(wire[j]) = 3 /\ wire[j][1] = m[1] /\ wire[j][2] = m[2]})
EventuallyEnds == <>Terminated
====
