SPECIFICATION Spec
CONSTANTS
  Pool <- MCPool
  MaxLen = 4
  Filters <- MCFilters
INVARIANTS EachWantedOnce ShuffleConserves
