---- MODULE MC_MaprSchedGen ----
EXTENDS MaprSchedGen
====
