---- MODULE MC_MaprSched ----
EXTENDS MaprSched
====
