-------------------------- MODULE MaprClientSched --------------------------
(* C06, client half: one MaprHandler per server re-aggregates the partial results into its local group *)
(* and merges it into the global group set - mapr/client/aggregate.go Aggregate(),                       *)
(* mapr/globalgroupset.go MergeNoblock()/Merge()/Result(), clients/maprclient.go Start()                  *)
(* (periodic reporter, final report after all connections ended).                                        *)
EXTENDS Integers, Sequences, FiniteSets, TLC
CONSTANTS Servers, NMsgs,        \* every server sends NMsgs messages, each accounting for one line
          KF_LastMergeSkipped    \* named deviation: the merge is a try-lock; if the lock is busy when a server's LAST
                                 \* message arrives, its local group is never merged and misses in the final result

VARIABLES sentN, local, global, lock, pc, reported, final   \* lock: 0 free, -1 held by the reporter, s held by the handler of server s
vars == <<sentN, local, global, lock, pc, reported, final>>
Init == /\ sentN = [s \in Servers |-> 0] /\ local = [s \in Servers |-> 0] /\ global = 0 /\ lock = 0
        /\ pc = [s \in Servers |-> "idle"] /\ reported = 0 /\ final = -1
\* handler s: Aggregate(message): add to the local group, then try to merge
Receive(s) == /\ pc[s] = "idle" /\ sentN[s] < NMsgs /\ final = -1
              /\ sentN' = [sentN EXCEPT ![s] = @ + 1] /\ local' = [local EXCEPT ![s] = @ + 1]
              /\ pc' = [pc EXCEPT ![s] = "try"] /\ UNCHANGED <<global, lock, reported, final>>
MergeLock(s) == /\ pc[s] = "try" /\ lock = 0 /\ lock' = s /\ pc' = [pc EXCEPT ![s] = "merging"]
                /\ UNCHANGED <<sentN, local, global, reported, final>>
MergeBusy(s) == /\ pc[s] = "try" /\ lock # 0 /\ KF_LastMergeSkipped      \* MergeNoblock: default branch
                /\ pc' = [pc EXCEPT ![s] = "idle"] /\ UNCHANGED <<sentN, local, global, lock, reported, final>>
MergeDone(s) == /\ pc[s] = "merging" /\ global' = global + local[s] /\ local' = [local EXCEPT ![s] = 0]
                /\ lock' = 0 /\ pc' = [pc EXCEPT ![s] = "idle"] /\ UNCHANGED <<sentN, reported, final>>
\* periodic reporter: Result()/WriteResult() hold the lock while they run
ReportBegin == /\ lock = 0 /\ final = -1 /\ reported < 2 /\ lock' = -1 /\ reported' = reported + 1
               /\ UNCHANGED <<sentN, local, global, pc, final>>
ReportEnd == /\ lock = -1 /\ lock' = 0 /\ UNCHANGED <<sentN, local, global, pc, reported, final>>
AllEnded == \A s \in Servers : sentN[s] = NMsgs /\ pc[s] = "idle"
FinalReport == /\ AllEnded /\ lock = 0 /\ final = -1 /\ final' = global
               /\ UNCHANGED <<sentN, local, global, lock, pc, reported>>
Stutter == final # -1 /\ UNCHANGED vars
Next == Stutter \/ ReportBegin \/ ReportEnd \/ FinalReport \/ \E s \in Servers : Receive(s) \/ MergeLock(s) \/ MergeBusy(s) \/ MergeDone(s)
Spec == Init /\ [][Next]_vars /\ WF_vars(FinalReport) /\ WF_vars(ReportEnd)
             /\ \A s \in Servers : WF_vars(Receive(s)) /\ WF_vars(MergeDone(s)) /\ SF_vars(MergeLock(s))
\* ---- Ref
EveryLineInFinalResult == final # -1 => final = Cardinality(Servers) * NMsgs
Terminates == <>(final # -1)
=============================================================================
