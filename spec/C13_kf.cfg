SPECIFICATION Spec
CONSTANTS
  Reads <- MCReads3
  Cap = 1
  SessOf <- OwnSess
  Fails <- NoFails
  KF_CancelDrainsToken = TRUE
INVARIANTS TypeOK NeverOverLimit TokensMatch
PROPERTIES EveryReadEnds NoSlotLeft
