----------------------------- MODULE MaprSched -----------------------------
(* C06, server half - mapreduce accounts for every file under any scheduling.                         *)
(* Code: server/handlers/readcommand.go read() (limiter, then registration of the per-file channel in  *)
(* NextLinesCh, read, close), mapr/server/aggregate.go nextLine()/fieldsFromLines() (channel rotation,  *)
(* the re-queue goroutine, the exit decision).                                                          *)
EXTENDS Integers, Sequences, FiniteSets, TLC
CONSTANTS NFiles, L, LimCap, ChCap, NQCap,
          KF_ExitEarly     \* named deviation: aggregator exits when current channel is closed and NextLinesCh is empty,
                           \* although a reader has not registered yet or a channel is held by a re-queue goroutine
F == 1..NFiles
VARIABLES rpc, produced, ch, closed, nextQ, cur, inflight, aggCount, agg, lim
vars == <<rpc, produced, ch, closed, nextQ, cur, inflight, aggCount, agg, lim>>
Init == /\ rpc = [f \in F |-> "idle"] /\ produced = [f \in F |-> 0] /\ ch = [f \in F |-> 0]
        /\ closed = [f \in F |-> FALSE] /\ nextQ = <<>> /\ cur = 0 /\ inflight = {} /\ aggCount = 0
        /\ agg = "waitfirst" /\ lim = 0
\* readcommand.read(): pass the limiter, then register the per-file channel, read, close, release
Acquire(f)  == rpc[f] = "idle" /\ lim < LimCap /\ lim' = lim + 1 /\ rpc' = [rpc EXCEPT ![f] = "limited"]
               /\ UNCHANGED <<produced, ch, closed, nextQ, cur, inflight, aggCount, agg>>
Register(f) == rpc[f] = "limited" /\ Len(nextQ) < NQCap /\ nextQ' = Append(nextQ, f) /\ rpc' = [rpc EXCEPT ![f] = "reading"]
               /\ UNCHANGED <<produced, ch, closed, cur, inflight, aggCount, agg, lim>>
Produce(f)  == rpc[f] = "reading" /\ produced[f] < L /\ ch[f] < ChCap
               /\ ch' = [ch EXCEPT ![f] = @ + 1] /\ produced' = [produced EXCEPT ![f] = @ + 1]
               /\ UNCHANGED <<rpc, closed, nextQ, cur, inflight, aggCount, agg, lim>>
Close(f)    == rpc[f] = "reading" /\ produced[f] = L /\ closed' = [closed EXCEPT ![f] = TRUE]
               /\ rpc' = [rpc EXCEPT ![f] = "done"] /\ lim' = lim - 1
               /\ UNCHANGED <<produced, ch, nextQ, cur, inflight, aggCount, agg>>
\* server.Aggregate.fieldsFromLines / nextLine()
AggFirst == agg = "waitfirst" /\ nextQ # <<>> /\ cur' = Head(nextQ) /\ nextQ' = Tail(nextQ) /\ agg' = "run"
            /\ UNCHANGED <<rpc, produced, ch, closed, inflight, aggCount, lim>>
AggTake == agg = "run" /\ ch[cur] > 0 /\ ch' = [ch EXCEPT ![cur] = @ - 1] /\ aggCount' = aggCount + 1
           /\ UNCHANGED <<rpc, produced, closed, nextQ, cur, inflight, agg, lim>>
AggClosedNext == agg = "run" /\ ch[cur] = 0 /\ closed[cur] /\ nextQ # <<>>
                 /\ cur' = Head(nextQ) /\ nextQ' = Tail(nextQ)
                 /\ UNCHANGED <<rpc, produced, ch, closed, inflight, aggCount, agg, lim>>
AllAccounted == inflight = {} /\ \A f \in F : rpc[f] = "done" /\ ch[f] = 0
AggClosedExit == agg = "run" /\ ch[cur] = 0 /\ closed[cur] /\ nextQ = <<>>
                 /\ (KF_ExitEarly \/ AllAccounted)
                 /\ agg' = "exited"
                 /\ UNCHANGED <<rpc, produced, ch, closed, nextQ, cur, inflight, aggCount, lim>>
AggEmptySwap == agg = "run" /\ ch[cur] = 0 /\ ~closed[cur] /\ nextQ # <<>>
                /\ inflight' = inflight \cup {cur} /\ cur' = Head(nextQ) /\ nextQ' = Tail(nextQ)
                /\ UNCHANGED <<rpc, produced, ch, closed, aggCount, agg, lim>>
Requeue(c) == c \in inflight /\ Len(nextQ) < NQCap /\ nextQ' = Append(nextQ, c) /\ inflight' = inflight \ {c}
              /\ UNCHANGED <<rpc, produced, ch, closed, cur, aggCount, agg, lim>>
Stutter == agg = "exited" /\ UNCHANGED vars
Next == Stutter \/ AggFirst \/ AggTake \/ AggClosedNext \/ AggClosedExit \/ AggEmptySwap
        \/ \E f \in F : Acquire(f) \/ Register(f) \/ Produce(f) \/ Close(f) \/ Requeue(f)
Spec == Init /\ [][Next]_vars /\ WF_vars(AggFirst) /\ WF_vars(AggTake) /\ WF_vars(AggClosedNext) /\ WF_vars(AggClosedExit)
  /\ \A f \in F : WF_vars(Acquire(f)) /\ WF_vars(Register(f)) /\ WF_vars(Produce(f)) /\ WF_vars(Close(f)) /\ WF_vars(Requeue(f))
\* Ref (C06, server part): when the aggregator has finished, every line of every file was aggregated
EveryLineCounted == agg = "exited" => aggCount = NFiles * L
Ends == <>(agg = "exited")
OnlyUnregisteredLoses == (agg = "exited" /\ aggCount < NFiles * L) => inflight = {}
====
