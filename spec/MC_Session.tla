---- MODULE MC_Session ----
EXTENDS Session
CmdsOne4 == <<<<4, 3, 3, 2>>>>        \* one command, four files (a glob)
CmdsOne2 == <<<<3, 2>>>>
CmdsOne1 == <<<<5>>>>
CmdsThree == <<<<1>>, <<2, 1>>, <<0>>>>
CmdsTwo  == <<<<0>>, <<2>>>>          \* two commands: an empty file first (KF_LateCommand)
CmdsTwoB == <<<<2>>, <<1, 1>>>>
====
