---------------------------- MODULE SessionTrace ----------------------------
(* Trace validation for C02: the vhook trace of a real server session (recorded by the replay harness, which is   *)
(* the transport) is checked against the actions of Session.                                                      *)
(*                                                                                                                *)
(* Logged events (in recorder order):                                                                             *)
(*   send      the harness hands a command to ServerHandler.Write          -> ClientSend                          *)
(*   cmd.recv  incrementActiveCommands() done                              -> ServerRecvCmd                       *)
(*   cmd.done  the atomic.AddInt32(-1) of decrementActiveCommands() done   -> CmdDec(c), c not logged             *)
(*   flush     flush() returned, v = queued messages it left behind        -> FlushDrained (v = 0)                *)
(*   read      a Read() call begins; v/c/f = what this call is going to return (1 = a line of file <<c, f>>,          *)
(*             2 = .syn, 0 = nothing: the harness merges the call's begin with its recorded outcome)               *)
(*   line      Read() returns the line: the harness hands the bytes to the client at once                          *)
(*                                                                         -> ClientPrint . ConsumerRead          *)
(*   syn       Read() returns ".syn close connection"                      -> ClientSyn                           *)
(* Not logged, taken as silent steps: the readers' channel sends (ReaderStep), the channel receive inside Read()   *)
(* (ServerReadLine / ServerReadMsg - it happens somewhere between the call's begin and its end, and other          *)
(* goroutines' events recorded in between may see the queue before or after it), the second atomic of              *)
(* decrementActiveCommands() (CmdLoad) and the goroutine that queues .syn (SynEnqueue; its trace point fires       *)
(* after the send and may be overtaken by the Read that takes the message).                                        *)
(*                                                                                                                *)
(* To keep the search linear the silent reader steps are taken as late as possible, which is complete: a line is  *)
(* queued only when the pending Read needs it or at the cmd.done of its command, and in the order in which the    *)
(* trace dequeues - the lines channel is FIFO, so enqueue order = dequeue order.                                  *)
EXTENDS Session, Json
CONSTANT TraceFile
Tr == ndJsonDeserialize(TraceFile)      \* one event per line: [ev |-> "line", c |-> 1, f |-> 2, v |-> 0]

VARIABLES l, enq, ok, want
tvars == <<vars, l, enq, ok, want>>

LineEvents == SelectSeq(Tr, LAMBDA e : e.ev = "line")
Ev == Tr[l]
More == l <= Len(Tr)
IsEv(name) == More /\ Ev.ev = name /\ l' = l + 1
None == [v |-> 0, c |-> 0, f |-> 0]

\* the file whose line is queued next: dictated by the dequeue order of the trace; beyond it (lines that are never
\* read in this trace) the lowest file that still has lines
Remaining == {cf \in {<<c, f>> : c \in 1..K, f \in 1..10} : cf[2] \in Files(cf[1]) /\ rd[cf[1]][cf[2]] < Cmds[cf[1]][cf[2]]}
NextFile == IF enq < Len(LineEvents) THEN <<LineEvents[enq + 1].c, LineEvents[enq + 1].f>>
            ELSE CHOOSE cf \in Remaining : \A o \in Remaining : cf[1] < o[1] \/ (cf[1] = o[1] /\ cf[2] <= o[2])
Forced == \/ want.v = 1 /\ wire = <<>> /\ lines = <<>>
          \/ More /\ Ev.ev = "cmd.done" /\ \E c \in 1..K : cmdState[c] = "running" /\ \E f \in Files(c) : rd[c][f] < Cmds[c][f]
SilentReader == /\ Forced /\ (enq < Len(LineEvents) \/ Remaining # {})
                /\ LET cf == NextFile IN cf[2] \in Files(cf[1]) /\ ReaderStep(cf[1], cf[2])
                /\ enq' = enq + 1 /\ UNCHANGED <<l, want>>
SilentLoad == \E c \in 1..K : CmdLoad(c) /\ UNCHANGED <<l, enq, want>>
SilentSyn  == want.v = 2 /\ wire = <<>> /\ smsgs = <<>> /\ SynEnqueue /\ UNCHANGED <<l, enq, want>>
\* the channel receive of the pending Read()
SilentRecvLine == /\ want.v = 1 /\ wire = <<>> /\ lines # <<>> /\ Head(lines)[1] = want.c /\ Head(lines)[2] = want.f
                  /\ ServerReadLine /\ UNCHANGED <<l, enq, want>>
SilentRecvMsg  == want.v = 2 /\ wire = <<>> /\ ServerReadMsg /\ UNCHANGED <<l, enq, want>>

TSend    == IsEv("send") /\ ClientSend /\ UNCHANGED <<enq, want>>
TRecv    == IsEv("cmd.recv") /\ ServerRecvCmd /\ UNCHANGED <<enq, want>>
TDec     == IsEv("cmd.done") /\ (\E c \in 1..K : CmdDec(c)) /\ UNCHANGED <<enq, want>>
\* flush() returning with nothing queued; returning with v > 0 happens only once the session is over (done)
TFlush   == IsEv("flush") /\ UNCHANGED <<enq, want>> /\
              \/ Ev.v = 0 /\ FlushDrained
              \/ Ev.v > 0 /\ KF_FlushGiveUp /\ KFFlushGiveUp
              \/ Ev.v > 0 /\ done /\ UNCHANGED vars
TRead    == IsEv("read") /\ wire = <<>> /\ want' = [v |-> Ev.v, c |-> Ev.c, f |-> Ev.f] /\ UNCHANGED <<vars, enq>>
\* the end of a Read() carrying a line: client Write, stdout
TLine    == IsEv("line") /\ UNCHANGED enq /\ want.v = 1 /\ want.c = Ev.c /\ want.f = Ev.f /\ wire # <<>> /\ want' = None
              /\ ClientPrint \cdot ConsumerRead
TSyn     == IsEv("syn") /\ UNCHANGED enq /\ want.v = 2 /\ wire # <<>> /\ want' = None /\ ClientSyn
\* events after the session is over (harness shutting the handlers down) carry no information
TAfter   == More /\ done /\ Ev.ev \in {"flush", "cmd.done", "cmd.recv", "send", "read"} /\ l' = l + 1 /\ UNCHANGED <<vars, enq, want>>

RefOK == AllDelivered /\ InOrder
TInit == Init /\ l = 1 /\ enq = 0 /\ ok = TRUE /\ want = None
TNext == /\ \/ TSend \/ TRecv \/ TDec \/ TFlush \/ TRead \/ TLine \/ TSyn \/ TAfter
            \/ SilentReader \/ SilentLoad \/ SilentSyn \/ SilentRecvLine \/ SilentRecvMsg
         /\ ok' = (ok /\ RefOK')
TSpec == TInit /\ [][TNext]_tvars

\* acceptance: some behaviour consumes the whole trace; the flag tells whether Ref held in every state of it
Report == (l = Len(Tr) + 1) => PrintT(<<"ACCEPTED", ok, Terminated>>)
=============================================================================
