---- MODULE MC_MaprClientSchedGen ----
EXTENDS MaprClientSchedGen
MCServers2 == {1, 2}
MCServers3 == {1, 2, 3}
====
