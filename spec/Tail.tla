--------------------------------- MODULE Tail ---------------------------------
(* C04 - following a file delivers every appended line once, in order.                                    *)
(* Code: internal/io/fs/readfile.go makeFileReader() (seek to the end on open), read() / handleReadError()  *)
(* (poll on EOF keeping the partial line), transmittable() (drop when the delivery queue is full),           *)
(* stats.go (ring of the last R lines with matched / transmitted flags, integer percentage).                 *)
(* Bytes: "a" (a line containing it matches the filter), "b", "n" newline.                                   *)
EXTENDS Integers, Sequences, FiniteSets, TLC
CONSTANTS Pre,        \* content that is in the file before the follow begins
          MaxBytes,   \* bytes the writer appends
          Cap,        \* capacity of the delivery queue (100 in the code)
          R,          \* size of the statistics ring (100 in the code)
          Filter,     \* TRUE: regex "a"; FALSE: no filter
          KF_DropForgotten  \* deviation (repaired): R further lines after a dropped one overwrite its slot in the ring, the next
                            \* delivered line then reports 100 although a line was lost.  The repaired code remembers the drop
                            \* (stats.dropped) until the next line is transmitted and caps that line's percentage at 99.

VARIABLES opened, openLen, file, rpos, partial, q, ring, pos, nlines, delivered, drops, pendingDrop, hist, badPerc
vars == <<opened, openLen, file, rpos, partial, q, ring, pos, nlines, delivered, drops, pendingDrop, hist, badPerc>>
Bytes == {"a", "b", "n"}
Init == /\ opened = FALSE /\ openLen = 0 /\ file = Pre /\ rpos = 0 /\ partial = <<>> /\ q = <<>>
        /\ ring = [i \in 0..(R - 1) |-> [m |-> FALSE, t |-> FALSE]] /\ pos = 0 /\ nlines = 0
        /\ delivered = <<>> /\ drops = 0 /\ pendingDrop = FALSE /\ hist = <<>> /\ badPerc = FALSE
\* NewTailFile(...).Start(): open and seek to the end
Open == /\ ~opened /\ opened' = TRUE /\ rpos' = Len(file) /\ openLen' = Len(file) /\ hist' = Append(hist, <<"open">>)
        /\ UNCHANGED <<file, partial, q, ring, pos, nlines, delivered, drops, pendingDrop, badPerc>>
\* the writer appends a chunk with one write() call (any chunking, also inside a line)
Append1(c) == /\ Len(file) - Len(Pre) + Len(c) <= MaxBytes /\ file' = file \o c /\ hist' = Append(hist, <<"write", c>>)
              /\ UNCHANGED <<opened, openLen, rpos, partial, q, ring, pos, nlines, delivered, drops, pendingDrop, badPerc>>
Matches(l) == ~Filter \/ \E i \in 1..Len(l) : l[i] = "a"
Count(f) == Cardinality({i \in 0..(R - 1) : f[i]})
Perc(rg) == LET mc == Count([i \in 0..(R - 1) |-> rg[i].m]) tc == Count([i \in 0..(R - 1) |-> rg[i].t])
            IN IF mc = 0 \/ mc = tc THEN 100 ELSE (tc * 100) \div mc
\* the reader consumes the next byte; a newline completes a line which goes through transmittable()
ReadByte == /\ opened /\ rpos < Len(file)
            /\ LET b == file[rpos + 1] IN
               IF b # "n"
                 THEN /\ partial' = Append(partial, b) /\ UNCHANGED <<q, ring, pos, nlines, drops, pendingDrop, badPerc>>
                 ELSE LET l == partial
                          p2 == (pos + 1) % R
                          m == Matches(l)
                          full == Len(q) >= Cap
                          rg == [ring EXCEPT ![p2] = [m |-> m, t |-> (m /\ ~full)]]
                      IN /\ partial' = <<>> /\ pos' = p2 /\ nlines' = nlines + 1 /\ ring' = rg
                         /\ IF m /\ ~full
                              THEN LET pc == IF ~KF_DropForgotten /\ pendingDrop /\ Perc(rg) > 99 THEN 99 ELSE Perc(rg)   \* transmittedPerc()
                                   IN /\ q' = Append(q, [line |-> l, n |-> nlines + 1, perc |-> pc])
                                      /\ badPerc' = (badPerc \/ (pendingDrop /\ pc >= 100))
                                   /\ pendingDrop' = FALSE /\ drops' = drops
                              ELSE /\ q' = q /\ badPerc' = badPerc
                                   /\ pendingDrop' = (pendingDrop \/ (m /\ full))
                                   /\ drops' = IF m /\ full THEN drops + 1 ELSE drops
            /\ rpos' = rpos + 1 /\ UNCHANGED <<opened, openLen, file, delivered, hist>>
\* the consumer (the session's Read) takes a line
Take == /\ q # <<>> /\ delivered' = Append(delivered, Head(q)) /\ q' = Tail(q) /\ hist' = Append(hist, <<"take">>)
        /\ UNCHANGED <<opened, openLen, file, rpos, partial, ring, pos, nlines, drops, pendingDrop, badPerc>>
Chunks == {<<x>> : x \in Bytes} \cup {<<x, y>> : x, y \in Bytes}
Next == Open \/ ReadByte \/ Take \/ \E c \in Chunks : Append1(c)
Spec == Init /\ [][Next]_vars
viewNoHist == <<opened, openLen, file, rpos, partial, q, ring, pos, nlines, delivered, drops, pendingDrop, badPerc>>

\* ---- Ref
RECURSIVE LinesOf(_, _)
LinesOf(s, cur) == IF s = <<>> THEN <<>> ELSE IF Head(s) = "n" THEN <<cur>> \o LinesOf(Tail(s), <<>>) ELSE LinesOf(Tail(s), Append(cur, Head(s)))
\* complete lines appended after the follow began, selected by the filter
Appended == SelectSeq(LinesOf(SubSeq(file, openLen + 1, Len(file)), <<>>), Matches)
\* ... and those of them the reader has already gone through
Consumed == SelectSeq(LinesOf(SubSeq(file, openLen + 1, rpos), <<>>), Matches)
Out == delivered \o q
OutLines == [i \in 1..Len(Out) |-> Out[i].line]
IsSubseq(a, b) == \E f \in [1..Len(a) -> 1..Len(b)] : (\A i \in 1..Len(a) : a[i] = b[f[i]]) /\ (\A i, j \in 1..Len(a) : i < j => f[i] < f[j])
\* every complete appended line once, unmodified, in order; nothing that was in the file before; only drops may be missing
ExactlyOnceInOrder == opened => (IF drops = 0 THEN OutLines = Consumed ELSE (Len(Out) + drops = Len(Consumed) /\ IsSubseq(OutLines, Consumed)))
\* the running number of a delivered line is its position among the lines seen since the open
NumbersRight == \A i \in 1..Len(Out) : Out[i].n >= 1 /\ (i > 1 => Out[i].n > Out[i - 1].n)
\* a drop is reported: the next delivered line carries a percentage below 100
DropNoticed == KF_DropForgotten \/ ~badPerc
NoBadPerc == ~badPerc
=============================================================================
