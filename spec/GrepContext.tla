---------------------------- MODULE GrepContext ----------------------------
(* C03 - dgrep line selection: internal/io/fs/readfilelcontext.go.               *)
(* A file is a sequence of booleans (does line i match the pattern); kind is the  *)
(* regex flag (default / invert / noop, internal/regex Match()).  Impl steps the   *)
(* context state machine once per line exactly as filterLineWithLContext(),        *)
(* lContextNotMatched(), lContextProcessBefore(), lContextProcessMaxCount() do.    *)
EXTENDS Integers, Sequences, FiniteSets, TLC
CONSTANTS N,      \* maximal file length
          P,      \* values of before / after / max
          Kinds   \* subset of {"default", "invert", "noop"}
VARIABLES file, kind, B, A, M, i, maxCount, maxReached, buf, after, out, stop
vars == <<file, kind, B, A, M, i, maxCount, maxReached, buf, after, out, stop>>
Files == UNION {[1..n -> BOOLEAN] : n \in 0..N}

\* regex.Match(): Default -> re.Match, Invert -> !re.Match, Noop -> true
Sel(f, k, j) == CASE k = "default" -> f[j] [] k = "invert" -> ~f[j] [] k = "noop" -> TRUE

Init == /\ file \in Files /\ kind \in Kinds /\ B \in P /\ A \in P /\ M \in P
        /\ i = 1 /\ maxCount = M /\ maxReached = FALSE /\ buf = <<>> /\ after = 0 /\ out = <<>> /\ stop = FALSE
HasCtx == B > 0 \/ A > 0 \/ M > 0                       \* lcontext.Has()
Push(q, x) == IF Len(q) < B THEN Append(q, x) ELSE Append(Tail(q), x)   \* beforeBuf channel of capacity B, oldest evicted
\* filterWithoutLContext
StepPlain == /\ ~HasCtx /\ ~stop /\ i <= Len(file)
             /\ out' = IF Sel(file, kind, i) THEN Append(out, i) ELSE out
             /\ i' = i + 1 /\ UNCHANGED <<file, kind, B, A, M, maxCount, maxReached, buf, after, stop>>
\* filterLineWithLContext, line not selected -> lContextNotMatched
StepMiss == /\ HasCtx /\ ~stop /\ i <= Len(file) /\ ~Sel(file, kind, i)
            /\ IF A > 0 /\ after > 0
                 THEN after' = after - 1 /\ out' = Append(out, i) /\ buf' = buf
                 ELSE IF B > 0 THEN buf' = Push(buf, i) /\ UNCHANGED <<after, out>>
                      ELSE UNCHANGED <<after, out, buf>>
            /\ i' = i + 1 /\ UNCHANGED <<file, kind, B, A, M, maxCount, maxReached, stop>>
\* filterLineWithLContext, line selected
StepHit == /\ HasCtx /\ ~stop /\ i <= Len(file) /\ Sel(file, kind, i)
           /\ IF A > 0 /\ maxReached
                THEN stop' = TRUE /\ UNCHANGED <<after, buf, out, maxCount, maxReached, i>>
                ELSE /\ after' = IF A > 0 THEN A ELSE after
                     /\ out' = (IF B > 0 THEN out \o buf ELSE out) \o <<i>>
                     /\ buf' = <<>>
                     /\ IF M > 0
                          THEN /\ maxCount' = maxCount - 1
                               /\ IF maxCount' = 0
                                    THEN IF A = 0 \/ after' = 0 THEN stop' = TRUE /\ maxReached' = maxReached
                                         ELSE maxReached' = TRUE /\ stop' = stop
                                    ELSE UNCHANGED <<maxReached, stop>>
                          ELSE UNCHANGED <<maxCount, maxReached, stop>>
                     /\ i' = i + 1
           /\ UNCHANGED <<file, kind, B, A, M>>
Finished == stop \/ i > Len(file)
Done == Finished /\ UNCHANGED vars
Next == StepPlain \/ StepMiss \/ StepHit \/ Done
Spec == Init /\ [][Next]_vars

\* ---- Ref: from the property statement
RefSel(f, k)  == {j \in 1..Len(f) : Sel(f, k, j)}
Rank(S, s)    == Cardinality({t \in S : t <= s})
RefOut(f, k, b, a, m) ==
  LET S      == RefSel(f, k)
      Sm     == IF m = 0 THEN S ELSE {s \in S : Rank(S, s) <= m}                 \* the first max selected lines
      maxHit == m > 0 /\ Cardinality(S) >= m
      \* trailing context after the max-th selected line ends at the next selected line, nothing later is output
      cut    == IF maxHit THEN (IF \E t \in S : Rank(S, t) = m + 1 THEN CHOOSE t \in S : Rank(S, t) = m + 1 ELSE Len(f) + 1)
                ELSE Len(f) + 1
  IN {j \in 1..Len(f) : j < cut /\ \E s \in Sm : s - b <= j /\ j <= s + a}
SetOf(q) == {q[x] : x \in 1..Len(q)}
Sorted(q) == \A x \in 1..Len(q) - 1 : q[x] < q[x + 1]
ImplIsRef == Finished => (SetOf(out) = RefOut(file, kind, B, A, M) /\ Sorted(out))
=============================================================================
