---------------------------- MODULE MaprSchedGen ----------------------------
(* Behaviour generator for the C06 server half: records the order of the steps the replay harness can gate in  *)
(* the real code - a reader registering its channel, the aggregator deciding at a closed channel, a re-queue    *)
(* goroutine sending - and prints it when the aggregator has exited.  Used with TLC -simulate.                  *)
EXTENDS MaprSched, Json
VARIABLE hist
gvars == <<vars, hist>>
GInit == Init /\ hist = <<>>
Rec(a, f) == hist' = Append(hist, [a |-> a, f |-> f])
GNext == \/ \E f \in F : (Register(f) /\ Rec("register", f)) \/ (Requeue(f) /\ Rec("requeue", f))
                         \/ (Produce(f) /\ Rec("produce", f)) \/ (Close(f) /\ Rec("close", f))
         \/ (AggClosedNext /\ Rec("closed", 0)) \/ (AggClosedExit /\ Rec("closed", 0))
         \/ ((AggFirst \/ AggTake \/ AggEmptySwap \/ \E f \in F : Acquire(f)) /\ UNCHANGED hist)
GSpec == GInit /\ [][GNext]_gvars
EmitSched == agg = "exited" => PrintT(ToJson([sched |-> hist, counted |-> aggCount]))
=============================================================================
