---- MODULE MC_ClientMsg ----
EXTENDS ClientMsgCases
MCPrefixes == {"REMOTE", "SERVER", "CLIENT", "AGGREGATE", "A", ".", ".syn", ".syn1", ".syn2", ".synb", "other", ""}
MCLast == {"", "text", "100", "WARN", "ERROR", "FATAL", "crlf", "utf8", "esc", "OK", "indent", "trail"}   \* indent: blanks in front of a severity word; trail: blanks / tabs at the end
====
