--------------------------- MODULE MaprSchedTrace ---------------------------
(* Trace validation for C06 (server half): the vhook trace of a real "map + cat glob" session is checked against the *)
(* actions of MaprSched.  The content of a file is abstracted to one unit (L = 1, ChCap = 1): what is validated is the *)
(* protocol between the readers and the aggregator - registration of the per-file channels, rotation, re-queueing    *)
(* and above all the exit decision, which the model allows only when every reader has registered and finished and    *)
(* no channel is in the hands of a re-queue goroutine (AggClosedExit with AllAccounted).                              *)
(*                                                                                                                    *)
(* Logged events:                                                                                                     *)
(*   registered f   the reader of file f has sent its channel into NextLinesCh          -> (Acquire(f)) . Register(f) *)
(*   closed         the aggregator found its current channel closed and drained          -> guard only                *)
(*   next           ... and took the next channel                                        -> AggClosedNext             *)
(*   exit           ... and decided that nothing more can come                           -> AggClosedExit             *)
(*   swap           the current channel is momentarily empty, another one is taken        -> AggEmptySwap             *)
(*   requeued       the re-queue goroutine has handed the old channel back               -> Requeue(c), c not logged  *)
(* Silent: the limiter (Acquire; it is C13's subject, LimCap = NFiles here), the readers' sends and close (Produce,   *)
(* Close), the aggregator's receive (AggTake) and its very first channel (AggFirst has no trace point).               *)
EXTENDS MaprSched, Json
CONSTANT TraceFile
Tr == ndJsonDeserialize(TraceFile)      \* [ev |-> "registered", f |-> 2]
VARIABLES l, ok
tvars == <<vars, l, ok>>
Ev == Tr[l]
More == l <= Len(Tr)
IsEv(name) == More /\ Ev.ev = name /\ l' = l + 1

SilentStep == \/ AggFirst \/ AggTake
              \/ \E f \in F : Produce(f) \/ Close(f)
Silent == SilentStep /\ UNCHANGED l

TRegistered == IsEv("registered") /\ (Register(Ev.f) \/ (Acquire(Ev.f) \cdot Register(Ev.f)))
TClosed     == IsEv("closed") /\ agg = "run" /\ ch[cur] = 0 /\ closed[cur] /\ UNCHANGED vars
TNext       == IsEv("next") /\ AggClosedNext
TExit       == IsEv("exit") /\ AggClosedExit
TSwap       == IsEv("swap") /\ AggEmptySwap
TRequeued   == IsEv("requeued") /\ \E c \in F : Requeue(c)

TInit == Init /\ l = 1 /\ ok = TRUE
TNextStep == /\ TRegistered \/ TClosed \/ TNext \/ TExit \/ TSwap \/ TRequeued \/ Silent
             /\ ok' = (ok /\ EveryLineCounted')
TSpec == TInit /\ [][TNextStep]_tvars
Report == (l = Len(Tr) + 1) => PrintT(<<"ACCEPTED", ok, agg = "exited">>)
=============================================================================
