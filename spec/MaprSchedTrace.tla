--------------------------- MODULE MaprSchedTrace ---------------------------
(* Trace validation for C06 (server half): the vhook trace of a real "map + cat glob" session is checked against the *)
(* actions of MaprSched.  The content of a file is abstracted to one unit (L = 1, ChCap = 1): what is validated is the *)
(* protocol between the readers and the aggregator - registration of the per-file channels, rotation, re-queueing    *)
(* and above all the exit decision, which the model allows only when every reader has registered and finished and    *)
(* no channel is in the hands of a re-queue goroutine (AggClosedExit with AllAccounted).                              *)
(*                                                                                                                    *)
(* Logged events (a trace point fires before or after the channel operation it reports, never atomically with it, so *)
(* every channel send is a silent step between its "begin" and its "end" event):                                      *)
(*   regbegin f     the reader of file f is about to send its channel into NextLinesCh                                *)
(*   registered f   ... and has sent it                       (Acquire(f) . Register(f) happened in between)         *)
(*   closed         the aggregator found its current channel closed and drained          -> guard only                *)
(*   next           ... and took the next channel                                        -> AggClosedNext             *)
(*   exit           ... and decided that nothing more can come                           -> AggClosedExit             *)
(*   swap           the current channel is momentarily empty, another one is taken        -> AggEmptySwap             *)
(*   rqbegin        a re-queue goroutine is about to hand the old channel back                                        *)
(*   requeued       ... and has handed it back                (Requeue(c) happened in between, c not logged)         *)
(* Silent: the limiter (Acquire; it is C13's subject, LimCap = NFiles here), the channel sends named above, the       *)
(* readers' line sends and close (Produce, Close), the aggregator's receive (AggTake) and its very first channel      *)
(* (AggFirst has no trace point).                                                                                     *)
EXTENDS MaprSched, Json
CONSTANT TraceFile
Tr == ndJsonDeserialize(TraceFile)      \* [ev |-> "registered", f |-> 2]
VARIABLES l, ok, pend, rqAvail, rqUnacked
tvars == <<vars, l, ok, pend, rqAvail, rqUnacked>>
Ev == Tr[l]
More == l <= Len(Tr)
IsEv(name) == More /\ Ev.ev = name /\ l' = l + 1

SilentStep == \/ AggFirst \/ AggTake
              \/ \E f \in F : Produce(f) \/ Close(f)
Silent == SilentStep /\ UNCHANGED <<l, pend, rqAvail, rqUnacked>>
SilentRegister == \E f \in pend : /\ rpc[f] \in {"idle", "limited"}
                                     /\ (Register(f) \/ (Acquire(f) \cdot Register(f)))
                                     /\ UNCHANGED <<l, pend, rqAvail, rqUnacked>>
SilentRequeue == /\ rqAvail > 0 /\ (\E c \in F : Requeue(c))
                 /\ rqAvail' = rqAvail - 1 /\ rqUnacked' = rqUnacked + 1 /\ UNCHANGED <<l, pend>>

TRegBegin   == IsEv("regbegin") /\ Ev.f \in F /\ pend' = pend \cup {Ev.f} /\ UNCHANGED <<vars, rqAvail, rqUnacked>>
TRegistered == IsEv("registered") /\ Ev.f \in pend /\ rpc[Ev.f] \in {"reading", "done"} /\ pend' = pend \ {Ev.f} /\ UNCHANGED <<vars, rqAvail, rqUnacked>>
TClosed     == IsEv("closed") /\ agg = "run" /\ ch[cur] = 0 /\ closed[cur] /\ UNCHANGED <<vars, pend, rqAvail, rqUnacked>>
TNext       == IsEv("next") /\ AggClosedNext /\ UNCHANGED <<pend, rqAvail, rqUnacked>>
TExit       == IsEv("exit") /\ AggClosedExit /\ UNCHANGED <<pend, rqAvail, rqUnacked>>
TSwap       == IsEv("swap") /\ AggEmptySwap /\ UNCHANGED <<pend, rqAvail, rqUnacked>>
TRqBegin    == IsEv("rqbegin") /\ rqAvail' = rqAvail + 1 /\ UNCHANGED <<vars, pend, rqUnacked>>
TRequeued   == IsEv("requeued") /\ rqUnacked > 0 /\ rqUnacked' = rqUnacked - 1 /\ UNCHANGED <<vars, pend, rqAvail>>

TInit == Init /\ l = 1 /\ ok = TRUE /\ pend = {} /\ rqAvail = 0 /\ rqUnacked = 0
TNextStep == /\ \/ TRegBegin \/ TRegistered \/ TClosed \/ TNext \/ TExit \/ TSwap \/ TRqBegin \/ TRequeued
                \/ Silent \/ SilentRegister \/ SilentRequeue
             /\ ok' = (ok /\ EveryLineCounted')
TSpec == TInit /\ [][TNextStep]_tvars
Report == (l = Len(Tr) + 1) => PrintT(<<"ACCEPTED", ok, agg = "exited">>)
=============================================================================
