---- MODULE MC_Connections ----
EXTENDS Connections, Json
MCConns3 == {1, 2, 3}
MCConns4 == {1, 2, 3, 4}
\* history emission for the replay harness (TLC -simulate): every behaviour prefix that ends with all connections over
AllOver == \A c \in Conns : phase[c] \in {"closed", "refused"}
EmitHist == AllOver => PrintT(ToJson([hist |-> hist]))
====
