---- MODULE MC_MaprClientSched ----
EXTENDS MaprClientSched
MCServers2 == {1, 2}
MCServers3 == {1, 2, 3}
====
