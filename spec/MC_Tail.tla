---- MODULE MC_Tail ----
EXTENDS Tail, Json
PreNone == <<>>
PrePartial == <<"a">>
PreLine == <<"a", "n", "b">>
Finished == opened /\ rpos = Len(file) /\ q = <<>> /\ Len(file) - Len(Pre) = MaxBytes
EmitHist == Finished => PrintT(ToJson([hist |-> hist]))
====
