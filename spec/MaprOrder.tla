----------------------------- MODULE MaprOrder -----------------------------
(* C05, ordering and limit.  (1) TLC checks the Impl of ordering (any map iteration order, stable sort, cut) against     *)
(* RowsAcceptable for all key assignments of three groups over a small set of fractions.  (2) Records from real runs      *)
(* (c05_order.ndjson: the group keys of the rows a real client wrote, with the central value of the order column that   *)
(* TLC itself computed for the case) are judged by the same operator.                                                     *)
EXTENDS MaprAlgebra, Json
Fractions == {<<0, 1>>, <<1, 1>>, <<2, 1>>, <<1, 2>>, <<0 - 1, 1>>, <<2, 2>>}
KeyAssignments == UNION {[gs -> Fractions] : gs \in SUBSET {"a", "b", "c"}}
ASSUME \A key \in KeyAssignments : \A ord \in {"", "order", "rorder"} : \A lim \in {0 - 1, 0, 1, 2, 3, 5} : ImplOrderOK(key, ord, lim)

Records == ndJsonDeserialize("c05_order.ndjson")
KeyOf(r) == [g \in {r.keys[i].g : i \in 1..Len(r.keys)} |-> LET e == CHOOSE e \in {r.keys[i] : i \in 1..Len(r.keys)} : e.g = g IN <<e.num, e.den>>]
Bad == {i \in 1..Len(Records) : ~RowsAcceptable(Records[i].out, KeyOf(Records[i]), Records[i].ord, Records[i].lim)}
ASSUME PrintT(<<"BADORDER", {Records[i].id : i \in Bad}>>)
=============================================================================
