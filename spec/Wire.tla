-------------------------------- MODULE Wire --------------------------------
(* C01 - dcat reproduces file content byte for byte.                                        *)
(* Code: internal/io/fs/readfile.go read()/handleReadByte()/handleReadError() (cat mode),     *)
(* internal/server/handlers/basehandler.go Read() (framing, copy into the caller's buffer),    *)
(* internal/clients/handlers/basehandler.go Write()/handleMessage(), dlog Raw -> stdout.       *)
(* A single file through one session is a pipeline of FIFO queues: its output does not depend  *)
(* on the interleaving (that is C02's subject), so the pipeline is written as functions.       *)
(* Byte classes: "x","y" ordinary; "n" newline; "d" 0xAC message delimiter; "p" '.';            *)
(* "h" a byte of the REMOTE|host|...| header of non-plain mode.                                *)
EXTENDS Integers, Sequences, FiniteSets, TLC
CONSTANTS MaxLen, Ms, Ps,
          KF_FrameLongerThanBuffer,  \* named deviation: Read() copies min(len(frame), len(p)) bytes and discards the rest
          KF_LeadingDotPlain         \* named deviation (repaired): the client takes every message beginning with '.' for a hidden control
                                     \* message and drops it - in plain mode that is every line of the file beginning with a dot.  The
                                     \* repaired client hides only what it knows as a control message (".syn close connection"); a line
                                     \* of a file that begins with exactly that text still ends the session (open finding
                                     \* KF_SynTextInContent, outside this byte-class model, pinned by a test of its own)

Sigma == {"x", "y", "n", "d", "p"}
Files == UNION {[1..k -> Sigma] : k \in 0..MaxLen}
RECURSIVE Flat(_)
Flat(ss) == IF ss = <<>> THEN <<>> ELSE Head(ss) \o Flat(Tail(ss))

\* ---- Ref: the file with a newline inserted after each run of M consecutive non-newline bytes
RECURSIVE Exp(_, _, _)
Exp(f, k, M) == IF f = <<>> THEN <<>>
                ELSE IF Head(f) = "n" THEN <<"n">> \o Exp(Tail(f), 0, M)
                ELSE IF k + 1 = M THEN <<Head(f), "n">> \o Exp(Tail(f), 0, M)
                ELSE <<Head(f)>> \o Exp(Tail(f), k + 1, M)

\* in non-plain mode (REMOTE|...| records, one per output line) the output is the same followed by a newline if the file lacks it
ExpMode(f, M, plain) == LET e == Exp(f, 0, M) IN IF ~plain /\ e # <<>> /\ e[Len(e)] # "n" THEN Append(e, "n") ELSE e

\* ---- Impl: readFile.read / handleReadByte / handleReadError (cat mode)
RECURSIVE Lines(_, _, _)
Lines(f, msg, M) == IF f = <<>> THEN (IF msg = <<>> THEN <<>> ELSE <<msg>>)      \* EOF: flush the unterminated line
                    ELSE LET m2 == Append(msg, Head(f)) IN
                         IF Head(f) = "n" THEN <<m2>> \o Lines(Tail(f), <<>>, M)
                         ELSE IF Len(m2) >= M THEN <<Append(m2, "n")>> \o Lines(Tail(f), <<>>, M)   \* split a long line
                         ELSE Lines(Tail(f), m2, M)
\* baseHandler.Read(p): frame = [header] content delimiter; n = copy(p, frame)
\* in non-plain mode a record is a whole output line: an unterminated last line gets its newline
Term(line, plain) == IF ~plain /\ line[Len(line)] # "n" THEN Append(line, "n") ELSE line
Frame(line, plain) == (IF plain THEN <<>> ELSE <<"h", "h">>) \o Term(line, plain) \o <<"d">>
Cut(fr, P) == IF KF_FrameLongerThanBuffer THEN SubSeq(fr, 1, IF Len(fr) < P THEN Len(fr) ELSE P) ELSE fr  \* repaired: the rest goes out with the next Read
RECURSIVE Stream(_, _, _)
Stream(ls, plain, P) == IF ls = <<>> THEN <<>> ELSE Cut(Frame(Head(ls), plain), P) \o Stream(Tail(ls), plain, P)
\* client Write(): split at '\n' (kept) and at the delimiter; handleMessage(): a leading '.' is a hidden control message
RECURSIVE Client(_, _)
Client(st, buf) == IF st = <<>> THEN <<>>
                   ELSE LET b == Head(st) IN
                        IF b = "n" THEN (IF KF_LeadingDotPlain /\ buf # <<>> /\ Head(buf) = "p" THEN <<>> ELSE Append(buf, "n")) \o Client(Tail(st), <<>>)
                        ELSE IF b = "d" THEN (IF KF_LeadingDotPlain /\ buf # <<>> /\ Head(buf) = "p" THEN <<>> ELSE buf) \o Client(Tail(st), <<>>)
                        ELSE Client(Tail(st), Append(buf, b))
Strip(s) == SelectSeq(s, LAMBDA b : b # "h")   \* the comparison ignores the header bytes of non-plain mode
Out(f, M, P, plain) == Strip(Client(Stream(Lines(f, <<>>, M), plain, P), <<>>))

\* ---- triggers of the protocol-level deviations (in-band delimiter, in-band control messages)
HasD(f) == \E i \in 1..Len(f) : f[i] = "d"
LeadingDot(f, M) == \E i \in 1..Len(Lines(f, <<>>, M)) : Head(Lines(f, <<>>, M)[i]) = "p"
TooLong(f, M, P, plain) == \E i \in 1..Len(Lines(f, <<>>, M)) : Len(Frame(Lines(f, <<>>, M)[i], plain)) > P

VARIABLES f, M, P, plain
vars == <<f, M, P, plain>>
Init == f \in Files /\ M \in Ms /\ P \in Ps /\ plain \in BOOLEAN
Next == UNCHANGED vars
Spec == Init /\ [][Next]_vars
\* Impl = Ref outside the named deviations; the deviation list is complete for the explored scope
Faithful == (~HasD(f) /\ ~(KF_LeadingDotPlain /\ plain /\ LeadingDot(f, M)) /\ ~(KF_FrameLongerThanBuffer /\ TooLong(f, M, P, plain))) => Out(f, M, P, plain) = ExpMode(f, M, plain)
=============================================================================
