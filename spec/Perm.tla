-------------------------------- MODULE Perm --------------------------------
(* C08 - users read only files their permission rules allow.                        *)
(* Code: internal/user/server/user.go HasFilePermission() / hasFilePermission() /    *)
(* iteratePaths(), readcommand.go readFileIfPermissions().                            *)
(* The file system is a small abstract tree: every requestable path has a kind and    *)
(* the node it resolves to once symbolic links and '..' are eliminated; a pattern is   *)
(* abstracted to the set of resolved nodes it matches.                                 *)
(* Where the rule list comes from (config/server.go ServerUserPermissions()): the user's own list if the configuration has  *)
(* one - also when it is empty, which locks the account out entirely - otherwise the default list.  The harness installs   *)
(* every enumerated rule list as default list, as a user's own list, and beside an empty own list of another user.          *)
EXTENDS Integers, Sequences, FiniteSets, TLC
CONSTANTS Paths,       \* requestable paths (strings)
          ResolvesTo,  \* [Paths -> Paths \cup {"ERR"}]: fully resolved path ("ERR": dangling link)
          Kind,        \* [Paths -> {"file","dir","fifo","link"}] kind of the path itself (Lstat)
          Patterns,    \* names of regular expressions
          Matches,     \* [Patterns -> SUBSET Paths]: resolved paths the pattern matches
          HasColon,    \* subset of Patterns whose text contains ':' (e.g. a POSIX class [[:digit:]])
          MaxRules,
          KF_ColonInBarePattern  \* named deviation: a bare (unprefixed) rule containing ':' is split at the first ':'
                                 \* and its first part is taken for a permission type, so the rule is skipped

Rules == [pat : Patterns, deny : BOOLEAN, prefixed : BOOLEAN]   \* "readfiles:" spelling or bare
RuleLists == UNION {[1..n -> Rules] : n \in 0..MaxRules}

\* ---- Ref, from the statement
Resolved(p) == ResolvesTo[p]
IsRegular(p) == p # "ERR" /\ Kind[p] = "file"
RECURSIVE LastMatch(_, _, _)
LastMatch(rules, p, acc) == IF rules = <<>> THEN acc
                            ELSE LET r == Head(rules) IN
                                 LastMatch(Tail(rules), p, IF p \in Matches[r.pat] THEN ~r.deny ELSE acc)
RefServed(rules, req) == LET p == Resolved(req) IN IsRegular(p) /\ LastMatch(rules, p, FALSE)

\* ---- Impl: iteratePaths() with its rule parser
Skipped(r) == KF_ColonInBarePattern /\ ~r.prefixed /\ r.pat \in HasColon
RECURSIVE Iterate(_, _, _)
Iterate(rules, p, has) == IF rules = <<>> THEN has
                          ELSE LET r == Head(rules) IN
                               IF Skipped(r) THEN Iterate(Tail(rules), p, has)                  \* typeStr != "readfiles": continue
                               ELSE Iterate(Tail(rules), p, IF p \in Matches[r.pat] THEN ~r.deny ELSE has)
ImplServed(rules, req) == LET p == Resolved(req) IN
                          p # "ERR" /\ Kind[p] = "file" /\ Iterate(rules, p, FALSE)

VARIABLES rules, req
vars == <<rules, req>>
Init == rules \in RuleLists /\ req \in Paths
Next == UNCHANGED vars
Spec == Init /\ [][Next]_vars
ImplIsRef == ImplServed(rules, req) = RefServed(rules, req)
\* the only way to differ is the named deviation
OnlyColonDiffers == (ImplServed(rules, req) # RefServed(rules, req)) => \E i \in 1..Len(rules) : Skipped(rules[i])
=============================================================================
