SPECIFICATION Spec
CONSTANTS
  Paths <- MCPaths
  ResolvesTo <- MCResolves
  Kind <- MCKind
  Patterns <- MCPatterns
  Matches <- MCMatches
  HasColon <- MCColon
  MaxRules = 2
  KF_ColonInBarePattern = TRUE
INVARIANT OnlyColonDiffers
