-------------------------- MODULE MaprClientSchedGen --------------------------
(* Behaviour generator for the C06 client half (TLC -simulate): the order of message arrivals per server, of the    *)
(* merges' critical sections and of the reporter's lock-holding periods, as the replay harness can force them.     *)
EXTENDS MaprClientSched, Json
VARIABLE hist
gvars == <<vars, hist>>
GInit == Init /\ hist = <<>>
Rec(a, s) == hist' = Append(hist, [a |-> a, s |-> s])
GNext == \/ \E s \in Servers : \/ (Receive(s) /\ Rec("recv", s)) \/ (MergeLock(s) /\ Rec("locked", s))
                               \/ (MergeBusy(s) /\ Rec("busy", s)) \/ (MergeDone(s) /\ Rec("done", s))
         \/ (ReportBegin /\ Rec("rlock", 0)) \/ (ReportEnd /\ Rec("runlock", 0))
         \/ (FinalReport /\ UNCHANGED hist)
GSpec == GInit /\ [][GNext]_gvars
EmitSched == final # -1 => PrintT(ToJson([sched |-> hist, final |-> final]))
===============================================================================
