---------------------------- MODULE ClientMsgCases ----------------------------
EXTENDS ClientMsg, Json, SequencesExt
Shapes == {[prefix |-> p, nfields |-> n, last |-> l, nl |-> b] : p \in MsgPrefixes, n \in 1..MaxFields, l \in LastFields, b \in BOOLEAN}
ASSUME ndJsonSerialize("c16_cases.ndjson", SetToSeq(Shapes))
AggCases == {[samples |-> a.samples, parts |-> a.parts, trail |-> a.trail, accepted |-> AggAccepted(a), counted |-> AggCounted(a)] : a \in AggShapes(3)}
ASSUME ndJsonSerialize("c16_agg.ndjson", SetToSeq(AggCases))
===============================================================================
