------------------------------ MODULE AuthCases ------------------------------
EXTENDS Auth, Json, SequencesExt
KeyCases == {[file |-> f, ref |-> Listed(f), impl |-> {k \in Offered : ImplKeyAccept(f, k)}] : f \in Files}
ASSUME ndJsonSerialize("c09_keycases.ndjson", SetToSeq(KeyCases))
PwCases == {[user |-> u, pw |-> pw, addr |-> a, ref |-> RefPwAccept(u, pw, a), must |-> (a \notin IPv6)] : u \in Users, pw \in Passwords, a \in Addrs}
ASSUME ndJsonSerialize("c09_pwcases.ndjson", SetToSeq(PwCases))
\* (C) logins over a real SSH connection to the real server (source address ip1 = 127.0.0.1): which authentication method
\* with which credential opens a connection.  "other" has the authorized-keys file <<cmt, A>>, "nofile" has none; the
\* service users have none either.  Methods the server does not offer ("none", keyboard-interactive) open nothing.
WireUsers == {"other", "nofile", "health", "schedule", "continuous"}
WireFile(u) == IF u = "other" THEN <<"cmt", "A">> ELSE <<>>
WireAttempts == {[user |-> u, method |-> "none", cred |-> ""] : u \in WireUsers}
           \cup {[user |-> u, method |-> "kbd", cred |-> "HEALTHPW"] : u \in WireUsers}
           \cup {[user |-> u, method |-> "key", cred |-> k] : u \in WireUsers, k \in Offered}
           \cup {[user |-> u, method |-> "password", cred |-> pw] : u \in WireUsers, pw \in Passwords}
RefWireAccept(a) == \/ a.method = "key" /\ RefKeyAccept(WireFile(a.user), a.cred)
                    \/ a.method = "password" /\ RefPwAccept(a.user, a.cred, "ip1")
ASSUME ndJsonSerialize("c09_wirecases.ndjson", SetToSeq({[user |-> a.user, method |-> a.method, cred |-> a.cred, ref |-> RefWireAccept(a)] : a \in WireAttempts}))
==============================================================================
