------------------------------ MODULE AuthCases ------------------------------
EXTENDS Auth, Json, SequencesExt
KeyCases == {[file |-> f, ref |-> Listed(f), impl |-> {k \in Offered : ImplKeyAccept(f, k)}] : f \in Files}
ASSUME ndJsonSerialize("c09_keycases.ndjson", SetToSeq(KeyCases))
PwCases == {[user |-> u, pw |-> pw, addr |-> a, ref |-> RefPwAccept(u, pw, a), must |-> (a \notin IPv6)] : u \in Users, pw \in Passwords, a \in Addrs}
ASSUME ndJsonSerialize("c09_pwcases.ndjson", SetToSeq(PwCases))
==============================================================================
