---------------------------- MODULE CodecCases ----------------------------
EXTENDS Codec, Json, SequencesExt
\* (A) every regex string of the bounded alphabet, for the end-to-end replay (client encode -> server decode -> reader)
ASSUME ndJsonSerialize("c12_cases.ndjson", SetToSeq({[regex |-> s] : s \in Str}))
===========================================================================
