-------------------------------- MODULE Auth --------------------------------
(* C09 - sessions are granted only to authorised keys and the fixed service users.     *)
(* Code: internal/ssh/server/publickeycallback.go verifyAuthorizedKeys() (the loop       *)
(* around ssh.ParseAuthorizedKey), internal/server/server.go Callback() /                 *)
(* backgroundCanSSH(), handler choice in handleRequests().                                *)
EXTENDS Integers, Sequences, FiniteSets, TLC
CONSTANTS MaxLines,              \* maximal number of lines of an authorized-keys file
          KF_TrailingNonKeyLines \* named deviation: non-key lines after the last key make the whole file unusable

\* ---- authorized keys: a file is a sequence of line kinds
KeyKinds == {"A", "B", "Aopt"}                      \* key A, key B, key A preceded by an options field
LineKinds == KeyKinds \cup {"cmt", "blank", "junk"} \* comment (possibly a commented-out key: the text of key A or C behind '#'),
                                                    \* blank line, text that is no key; the options field of a B entry may quote key C's text
KeyOf(k) == IF k = "B" THEN "B" ELSE "A"
Files == UNION {[1..n -> LineKinds] : n \in 0..MaxLines}
Offered == {"A", "B", "C"}                          \* C is listed nowhere
Listed(f) == {KeyOf(f[i]) : i \in {j \in 1..Len(f) : f[j] \in KeyKinds}}
\* Ref: every key listed in the file (comments, options, blank lines anywhere) is accepted, everything else rejected
RefKeyAccept(f, k) == k \in Listed(f)

\* Impl: for len(bytes) > 0 { key, rest, err := ParseAuthorizedKey(bytes); if err != nil { return error }; ... bytes = rest }
\* ParseAuthorizedKey skips lines that are no key and fails with "no key found" when none is left.
NextKey(f, i) == IF \E j \in i..Len(f) : f[j] \in KeyKinds THEN CHOOSE j \in i..Len(f) : f[j] \in KeyKinds /\ \A x \in i..(j-1) : f[x] \notin KeyKinds ELSE 0
RECURSIVE Scan(_, _, _)
Scan(f, i, acc) ==    \* returns [err, keys]
  IF i > Len(f) THEN [err |-> FALSE, keys |-> acc]                 \* no bytes left
  ELSE LET j == NextKey(f, i) IN
       IF j = 0 THEN [err |-> KF_TrailingNonKeyLines \/ acc = {}, keys |-> acc]    \* "ssh: no key found" on the rest
       ELSE Scan(f, j + 1, acc \cup {KeyOf(f[j])})
ImplKeyAccept(f, k) == LET s == Scan(f, 1, {}) IN ~s.err /\ k \in s.keys

\* ---- password callback for the service users
Users == {"health", "schedule", "continuous", "other", "healthcase", "schedulecase"}   \* ...case: a service user's name in another letter case
ServiceName(u) == u \in {"health", "schedule", "continuous"}
Passwords == {"HEALTHPW", "job1", "job2", "job3", "jobX", "wrong", ""}
Addrs == {"ip1", "ip2", "ip1x", "ip2p", "ipz", "ip6l", "ip6u"}   \* ip2p: a proper textual prefix of ip2 (10.1.2.3 vs 10.1.2.30), on no list; ip1x: an address that has ip1 as a textual prefix (127.0.0.1 vs 127.0.0.10);
                                                         \* ip6l / ip6u: IPv6 sources, one on an allow list, one on none
IPv6 == {"ip6l", "ip6u"}
\* jobX: a scheduled and a continuous job may carry the same name; their allow lists stay separate
SchedJobs == {[name |-> "job1", allow |-> {"ip1", "ip6l"}], [name |-> "job2", allow |-> {"ip2", "ip1"}], [name |-> "jobX", allow |-> {"ip2"}]}
ContJobs  == {[name |-> "job3", allow |-> {"ip2"}], [name |-> "jobX", allow |-> {"ip1"}]}
RefPwAccept(u, pw, addr) ==
  \/ u = "health" /\ pw = "HEALTHPW"
  \/ u = "schedule" /\ \E j \in SchedJobs : pw = j.name /\ addr \in j.allow
  \/ u = "continuous" /\ \E j \in ContJobs : pw = j.name /\ addr \in j.allow
ImplPwAccept(u, pw, addr) ==     \* Callback(): switch user.Name ... backgroundCanSSH(): job name equal, remote IP equal to a looked-up allowed IP
  CASE u = "health" -> pw = "HEALTHPW"
    \* (the source IP is cut out of "ip:port" at the first ':', so an IPv6 source "[2001:db8::7]:port" never equals an allowed address)
    [] u = "schedule" -> addr \notin IPv6 /\ \E j \in SchedJobs : pw = j.name /\ \E a \in j.allow : addr = a
    [] u = "continuous" -> addr \notin IPv6 /\ \E j \in ContJobs : pw = j.name /\ \E a \in j.allow : addr = a
    [] OTHER -> FALSE
\* the health user can run nothing but the health command
Commands == {"health", "cat", "grep", "tail", "map", ".ack", "other"}
RefHealthAnswers(cmd) == cmd = "health"
ImplHealthAnswers(cmd) == cmd = "health"       \* handleHealthCommand(): only "health" produces OK, everything else an error message

\* ---- histories: authentication is stateless - an earlier grant must not influence a later decision
VARIABLES file, hist, rewrites
vars == <<file, hist, rewrites>>
Offers == [user : {"alice", "bob"}, key : Offered]
Init == file \in [{"alice", "bob"} -> Files] /\ hist = <<>> /\ rewrites = 0
\* every decision reads the user's file as it is at that moment (entries remember the content they were judged against)
Offer(o) == /\ Len(hist) < 2
            /\ hist' = Append(hist, [o |-> o, f |-> file[o.user], granted |-> ImplKeyAccept(file[o.user], o.key)])
            /\ UNCHANGED <<file, rewrites>>
\* the administrator replaces a user's file between two logins (edit, restore of a saved copy, sync preserving timestamps)
Rewrite(u, f) == rewrites < 1 /\ Len(hist) = 1 /\ file' = [file EXCEPT ![u] = f] /\ rewrites' = rewrites + 1 /\ UNCHANGED hist
\* (by symmetry only alice's file is replaced, by files of at most one line; the harness replaces either user's file by any file)
Next == (\E o \in Offers : Offer(o)) \/ (\E f \in {g \in Files : Len(g) <= 1} : Rewrite("alice", f)) \/ UNCHANGED vars
Spec == Init /\ [][Next]_vars
KeyDecisionsRight == \A i \in 1..Len(hist) : hist[i].granted = RefKeyAccept(hist[i].f, hist[i].o.key)
NeverGrantUnlisted == \A i \in 1..Len(hist) : hist[i].granted => RefKeyAccept(hist[i].f, hist[i].o.key)
\* (the password decisions are stateless as well: the harness replays every ordered pair of password cases on one server
\* and compares the second decision with the same Ref)
\* "granted only to": nothing outside the Ref is granted; everything inside it is granted as well, except that a listed IPv6
\* source is refused (the statement does not demand the grant)
PwDecisionsRight == \A u \in Users, pw \in Passwords, a \in Addrs :
                       /\ ImplPwAccept(u, pw, a) => RefPwAccept(u, pw, a)
                       /\ (a \notin IPv6 => ImplPwAccept(u, pw, a) = RefPwAccept(u, pw, a))
HealthOnly == \A c \in Commands : ImplHealthAnswers(c) = RefHealthAnswers(c)
=============================================================================
