------------------------------- MODULE Codec -------------------------------
(* C12 - the request the server decodes equals the request the client encoded.   *)
(* Client: config/args.go SerializeOptions(), regex.Serialize(), the command        *)
(* string of grepclient/catclient makeCommands(), handlers SendMessage() (base64 +  *)
(* envelope).  Server: basehandler Write() split at ';', handleCommand() split at   *)
(* ' ', handleProtocolVersion(), handleBase64() (decode, split at ' '), split of     *)
(* args[0] at ':', DeserializeOptions() SplitN('=',2), readcommand Start()           *)
(* Join(args[2:]," "), regex.Deserialize() SplitN(' ',2) and the flag list.          *)
(* Strings are sequences of one-character strings over a small alphabet.             *)
EXTENDS Integers, Sequences, FiniteSets, TLC
CONSTANTS Alphabet,   \* characters a regex may contain
          MaxLen      \* maximal length of the regex string

Str == UNION {[1..n -> Alphabet] : n \in 0..MaxLen}
S(t) == t   \* a literal is already a sequence of characters, e.g. <<"g","r","e","p">>

\* ---- generic string functions (strings.Split, SplitN, Join)
RECURSIVE SplitAt(_, _, _)
SplitAt(s, c, cur) == IF s = <<>> THEN <<cur>>
                      ELSE IF Head(s) = c THEN <<cur>> \o SplitAt(Tail(s), c, <<>>)
                      ELSE SplitAt(Tail(s), c, Append(cur, Head(s)))
Split(s, c) == SplitAt(s, c, <<>>)
RECURSIVE JoinWith(_, _)
JoinWith(parts, c) == IF parts = <<>> THEN <<>>
                      ELSE IF Len(parts) = 1 THEN parts[1]
                      ELSE parts[1] \o <<c>> \o JoinWith(Tail(parts), c)
IndexOf(s, c) == IF \E i \in 1..Len(s) : s[i] = c THEN CHOOSE i \in 1..Len(s) : s[i] = c /\ \A j \in 1..i-1 : s[j] # c ELSE 0
SplitN2(s, c) == LET i == IndexOf(s, c) IN IF i = 0 THEN <<s>> ELSE <<SubSeq(s, 1, i - 1), SubSeq(s, i + 1, Len(s))>>
HasPrefix(s, p) == Len(s) >= Len(p) /\ SubSeq(s, 1, Len(p)) = p

\* ---- the request as the user specified it
\* regex: the pattern string; inv: --invert; opts: set of <<key, value>> pairs, keys and values are words
Requests(OptSets) == [regex : Str, inv : BOOLEAN, opts : OptSets]
\* regex.New(): '', '.', '.*' are the noop regex (select all)
IsNoop(re) == re = <<>> \/ re = <<".">> \/ re = <<".", "*">>
FlagOf(rq) == IF IsNoop(rq.regex) THEN <<"n","o","o","p">> ELSE IF rq.inv THEN <<"i","n","v","e","r","t">> ELSE <<"d","e","f","a","u","l","t">>
\* what the server must end up with: the pattern (or 'select all'), the polarity, the options
Meaning(rq) == [all |-> IsNoop(rq.regex), regex |-> IF IsNoop(rq.regex) THEN <<>> ELSE rq.regex,
                inv |-> (~IsNoop(rq.regex) /\ rq.inv), opts |-> rq.opts]

\* ---- client side
\* SerializeOptions(): key=value joined by ':' (map order is arbitrary; OptSeq is one order)
RECURSIVE OptString(_)
OptString(optseq) == IF optseq = <<>> THEN <<>>
                     ELSE optseq[1][1] \o <<"=">> \o optseq[1][2] \o (IF Len(optseq) > 1 THEN <<":">> \o OptString(Tail(optseq)) ELSE <<>>)
\* Regex.Serialize(): "regex:<flags> <regexStr>"  (the noop regex has an empty regexStr)
SerializeRegex(rq) == <<"r","e","g","e","x",":">> \o FlagOf(rq) \o <<" ">> \o (IF IsNoop(rq.regex) THEN <<>> ELSE rq.regex)
\* makeCommands(): "<mode>:<options> <file> <regex>"
Command(rq, optseq, file) == <<"g","r","e","p",":">> \o OptString(optseq) \o <<" ">> \o file \o <<" ">> \o SerializeRegex(rq)
\* SendMessage(): "protocol 4.1 base64 <b64>;"  - base64 is modelled as an opaque box around the payload: its
\* alphabet contains none of the characters the server splits on
Envelope(cmd) == <<"protocol", "4.1", "base64", [b64 |-> cmd]>>     \* the words of the envelope, already ' '-separated

\* ---- server side
\* handleProtocolVersion + handleBase64 + handleCommand + readCommand.Start + regex.Deserialize
Decode(words) ==
  IF Len(words) <= 2 \/ words[1] # "protocol" \/ words[2] # "4.1" THEN [err |-> "protocol"]
  ELSE LET rest == SubSeq(words, 3, Len(words)) IN
  IF Len(rest) # 2 \/ rest[1] # "base64" THEN [err |-> "base64"]
  ELSE LET decoded == rest[2].b64
           args == Split(decoded, " ")
           argc == Len(decoded)                      \* sic: the length of the decoded string
           parts == Split(args[1], ":")
           optparts == IF Len(parts) = 1 \/ parts[2] = <<>> THEN <<>> ELSE Tail(parts)
           kvs == [i \in 1..Len(optparts) |-> SplitN2(optparts[i], "=")]
       IN IF \E i \in 1..Len(kvs) : Len(kvs[i]) # 2 THEN [err |-> "options"]
          ELSE IF argc < 4 \/ Len(args) < 3 THEN [err |-> "args"]
          ELSE LET rs == JoinWith(SubSeq(args, 3, Len(args)), " ")
                   s2 == SplitN2(rs, " ")
               IN IF Len(s2) < 2 THEN [err |-> "none", all |-> TRUE, regex |-> <<>>, inv |-> FALSE,
                                       opts |-> {<<kvs[i][1], kvs[i][2]>> : i \in 1..Len(kvs)}, file |-> args[2]]
                  ELSE IF ~HasPrefix(s2[1], <<"r","e","g","e","x">>) THEN [err |-> "regexprefix"]
                  ELSE LET fl == IF IndexOf(s2[1], ":") = 0 THEN <<>> ELSE Split(SplitN2(s2[1], ":")[2], ",")
                           known == SelectSeq(fl, LAMBDA f : f \in {<<"d","e","f","a","u","l","t">>, <<"i","n","v","e","r","t">>, <<"n","o","o","p">>})
                           first == IF known = <<>> THEN <<"d","e","f","a","u","l","t">> ELSE known[1]
                       IN [err |-> "none", all |-> (first = <<"n","o","o","p">>),
                           regex |-> IF first = <<"n","o","o","p">> THEN <<>> ELSE s2[2],
                           inv |-> (first = <<"i","n","v","e","r","t">>),
                           opts |-> {<<kvs[i][1], kvs[i][2]>> : i \in 1..Len(kvs)}, file |-> args[2]]

VARIABLES rq, optseq
vars == <<rq, optseq>>
OptPool == {{}, {<<S(<<"m","a","x">>), S(<<"1","0">>)>>},
            {<<S(<<"p","l","a","i","n">>), S(<<"t","r","u","e">>)>>, <<S(<<"b","e","f","o","r","e">>), S(<<"2">>)>>},
            {<<S(<<"q","u","i","e","t">>), S(<<"t","r","u","e">>)>>, <<S(<<"a","f","t","e","r">>), S(<<"3">>)>>, <<S(<<"m","a","x">>), S(<<"1">>)>>}}
Perms(set) == {q \in [1..Cardinality(set) -> set] : \A i, j \in 1..Cardinality(set) : i # j => q[i] # q[j]}
Init == rq \in Requests(OptPool) /\ optseq \in Perms(rq.opts)
Next == UNCHANGED vars
Spec == Init /\ [][Next]_vars
File == <<"/","f">>
Decoded == Decode(Envelope(Command(rq, optseq, File)))
\* Ref: the decoded request means what the user specified
RoundTrip == /\ Decoded.err = "none"
             /\ Decoded.all = Meaning(rq).all /\ Decoded.regex = Meaning(rq).regex /\ Decoded.inv = Meaning(rq).inv
             /\ Decoded.opts = rq.opts /\ Decoded.file = File

\* ---- session level: basehandler.handleCommand()/handleOptions().  A command without options does not touch the
\* session's output-mode flags; the first command WITH options sets them, once (sync.Once).  The bundled clients
\* send e.g. "map <query>" (no options) followed by "cat:quiet=true:plain=true:serverless=true <file> <regex>".
RECURSIVE SessionFlags(_, _, _)
SessionFlags(cmds, flags, once) ==            \* cmds: sequence of option sets ({} = command without options)
  IF cmds = <<>> THEN flags
  ELSE IF Head(cmds) = {} THEN SessionFlags(Tail(cmds), flags, once)                 \* early return, handleOptions not called
  ELSE IF once THEN SessionFlags(Tail(cmds), flags, TRUE)
  ELSE SessionFlags(Tail(cmds), Head(cmds), TRUE)
Sessions(O) == UNION {[1..n -> {{}, O}] : n \in 1..3}
\* Ref: the flags in force are those of the client's options whenever any command carried them
SessionOK == \A O \in (OptPool \ {{}}) : \A ss \in Sessions(O) :
               SessionFlags(ss, {}, FALSE) = (IF \E i \in 1..Len(ss) : ss[i] = O THEN O ELSE {})
=============================================================================
