--------------------------- MODULE LimiterSched ---------------------------
(* Schedule generator for C13: the harness controls Enter / Cancel / Finish and lets the real  *)
(* goroutines run to quiescence in between.  This module explores exactly those behaviours of  *)
(* Limiter (controllable actions only in quiescent states) and prints, for every complete      *)
(* behaviour, the controllable schedule with the observation predicted at each quiescent point *)
(* (tokens = len(limiter), files open).                                                        *)
EXTENDS Limiter, Json
CONSTANTS MaxCancel, MaxRotate
VARIABLES hist, wq    \* wq: Go parks blocked senders of a channel in FIFO order; the generator follows that order so
                      \* that the schedules it prints are the ones the real runtime produces (Limiter itself does not assume it)
svars == <<vars, hist, wq>>

Obs == [tokens |-> tokens, open |-> Cardinality(Reading),
        waiting |-> Cardinality({r \in Reads : pc[r] = "waiting"}), retrying |-> Cardinality({r \in Reads : pc[r] = "retrying"})]
NRotated == Cardinality({i \in 1..Len(hist) : hist[i].a = "rotate"})
NCancelled == Cardinality({s \in Sessions : cancelled[s]})

SInit == Init /\ hist = <<>> /\ wq = <<>>
Without(q, r) == SelectSeq(q, LAMBDA x : x # r)
SInternal(r) == \/ (FastAcq(r) \/ CancelEnter(r) \/ Acquired(r) \/ AbortHolding(r) \/ AbortRetry(r) \/ FailFinish(r) \/ CancelledExit(r) \/ Release(r)) /\ UNCHANGED wq
                \/ Wait(r) /\ wq' = Append(wq, r)
                \/ SlowAcq(r) /\ wq # <<>> /\ Head(wq) = r /\ wq' = Tail(wq)
                \/ CancelWait(r) /\ wq' = Without(wq, r)
Ctl(a, id) == hist' = Append(hist, [a |-> a, id |-> id, obs |-> Obs])
SNext == \/ InternalEnabled /\ (\E r \in Reads : SInternal(r)) /\ UNCHANGED hist
         \/ ~InternalEnabled /\ UNCHANGED wq /\
                 \/ \E r \in Reads : (Enter(r) /\ Ctl("enter", r)) \/ (Finish(r) /\ Ctl("finish", r))
                                     \/ (NRotated < MaxRotate /\ Rotate(r) /\ Ctl("rotate", r))
                 \/ \E s \in Sessions : NCancelled < MaxCancel /\ Cancel(s) /\ Ctl("cancel", s)
SSpec == SInit /\ [][SNext]_svars

AllDone == \A r \in Reads : pc[r] = "done"
Emit == AllDone => PrintT(ToJson([steps |-> hist, final |-> Obs]))
===========================================================================
