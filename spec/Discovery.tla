----------------------------- MODULE Discovery -----------------------------
(* C18 - server discovery: internal/discovery/discovery.go ServerList():       *)
(* list source (comma string or file lines) -> optional regex filter -> dedup   *)
(* -> shuffle by repeatedly picking a random index and removing it by           *)
(* append(s[:r], s[r+1:]...).  The random index is nondeterministic here, so    *)
(* TLC explores every choice sequence of the shuffle.                           *)
EXTENDS Integers, Sequences, FiniteSets, TLC
CONSTANTS Pool,      \* abstract server entries (host, host:port, the empty entry ...)
          MaxLen,    \* maximal length of the input list
          Filters    \* set of abstract filters: each a subset of Pool (entries the regex matches); Pool itself = no filter

VARIABLES input, match, pc, servers, shuffled
vars == <<input, match, pc, servers, shuffled>>

Lists == UNION {[1..n -> Pool] : n \in 0..MaxLen}
SetOf(q) == {q[i] : i \in 1..Len(q)}
Count(q, e) == Cardinality({i \in 1..Len(q) : q[i] = e})

\* ---- Impl, as written
FilterList(l, M) == SelectSeq(l, LAMBDA e : e \in M)                                  \* filterList()
RECURSIVE DedupFrom(_, _)
DedupFrom(l, seen) == IF l = <<>> THEN <<>>                                           \* dedupList(): first occurrence wins
                      ELSE IF Head(l) \in seen THEN DedupFrom(Tail(l), seen)
                      ELSE <<Head(l)>> \o DedupFrom(Tail(l), seen \cup {Head(l)})
Dedup(l) == DedupFrom(l, {})
RemoveAt(l, r) == SubSeq(l, 1, r - 1) \o SubSeq(l, r + 1, Len(l))                     \* append(s[:r], s[r+1:]...), r is 1-based here

Init == /\ input \in Lists /\ match \in Filters /\ pc = "start" /\ servers = <<>> /\ shuffled = <<>>
Prepare == /\ pc = "start" /\ servers' = Dedup(FilterList(input, match)) /\ pc' = "shuffle" /\ UNCHANGED <<input, match, shuffled>>
Pick(r) == /\ pc = "shuffle" /\ servers # <<>> /\ r \in 1..Len(servers)
           /\ shuffled' = Append(shuffled, servers[r]) /\ servers' = RemoveAt(servers, r)
           /\ UNCHANGED <<input, match, pc>>
Finish == /\ pc = "shuffle" /\ servers = <<>> /\ pc' = "done" /\ UNCHANGED <<input, match, servers, shuffled>>
Next == Prepare \/ Finish \/ (\E r \in 1..MaxLen : Pick(r)) \/ (pc = "done" /\ UNCHANGED vars)
Spec == Init /\ [][Next]_vars

\* ---- Ref, from the statement: exactly the distinct entries that match the filter, each once, any order
Wanted(l, M) == {e \in SetOf(l) : e \in M}
IsExactlyOnce(out, l, M) == /\ SetOf(out) = Wanted(l, M)
                            /\ \A e \in SetOf(out) : Count(out, e) = 1
EachWantedOnce == pc = "done" => IsExactlyOnce(shuffled, input, match)
\* nothing is lost or duplicated while the shuffle is running either
ShuffleConserves == pc = "shuffle" => IsExactlyOnce(shuffled \o servers, input, match)
=============================================================================
