---- MODULE MC_LimiterTrace ----
EXTENDS LimiterTrace
MCReads2 == {1, 2}
MCReads3 == {1, 2, 3}
MCReads4 == {1, 2, 3, 4}
MCReads5 == {1, 2, 3, 4, 5}
MCReads6 == {1, 2, 3, 4, 5, 6}
OwnSess  == [r \in MCReads6 |-> r]
PairSess == [r \in MCReads6 |-> (r + 1) \div 2]
NoFails == {}
Fail2 == {2}
Fail23 == {2, 3}
====
