------------------------------- MODULE Outfile -------------------------------
(* C15 - a mapreduce outfile is never observable half-written.                                         *)
(* Code: internal/mapr/groupsetresult.go WriteResult() / writeQueryFile() / getOutfileFD() /             *)
(* resultWriteUnformatted() / resultWriteUnformattedHeader(): the sequence of file system calls of one    *)
(* result write; the client process can be killed between any two of them; runs repeat.                   *)
(* Paths: "out" the outfile, "tmp" outfile.tmp, "q" outfile.query, "qtmp" outfile.query.tmp.              *)
(* A file is a sequence of written chunks (one chunk per WriteString call).                               *)
EXTENDS Integers, Sequences, FiniteSets, TLC
CONSTANTS Runs,        \* sequence of runs: [append |-> BOOLEAN, final |-> BOOLEAN, rows |-> number of result rows]
          KF_TornHeaderAppend   \* deviation: in append mode header and rows are written chunk by chunk into the outfile itself;
                                \* a kill between two header chunks leaves a torn header that no later run completes

Paths == {"out", "tmp", "q", "qtmp"}
VARIABLES exists, content, r, pc, wh, hist
vars == <<exists, content, r, pc, wh, hist>>
NRuns == Len(Runs)
Header == << <<0, 0, 1>>, <<0, 0, 2>>, <<0, 0, 3>>, <<0, 0, 4>> >>   \* field, delimiter, field, newline (run 0 = the header)
Q == <<0, 0, 0>>                                                      \* the query text
RowChunks(run, i) == << <<run, i, 1>>, <<run, i, 2>>, <<run, i, 3>>, <<run, i, 4>> >>   \* value, delimiter, value, newline
RECURSIVE RowsOf(_, _)
RowsOf(run, n) == IF n = 0 THEN <<>> ELSE RowsOf(run, n - 1) \o RowChunks(run, n)
Complete(run) == Header \o RowsOf(run, Runs[run].rows)                \* a complete result with its header

\* the program of one run: a sequence of file system operations
Prog(run) ==
  LET R == Runs[run]
      body == [k \in 1..Len(RowsOf(run, R.rows)) |-> [op |-> "write", tok |-> RowsOf(run, R.rows)[k]]]
      hdr == [k \in 1..4 |-> [op |-> "hwrite", tok |-> Header[k]]]
  IN << [op |-> "creat", path |-> "qtmp"], [op |-> "qwrite"], [op |-> "rename", from |-> "qtmp", to |-> "q"] >>
     \o (IF R.append THEN << [op |-> "stat"], [op |-> "openappend"] >> ELSE << [op |-> "nostat"], [op |-> "creat", path |-> "tmp"] >>)
     \o hdr \o body
     \o (IF ~R.append /\ R.final THEN << [op |-> "rename", from |-> "tmp", to |-> "out"] >> ELSE <<>>)

Target(run) == IF Runs[run].append THEN "out" ELSE "tmp"
Init == /\ exists = [p \in Paths |-> FALSE] /\ content = [p \in Paths |-> <<>>]
        /\ r = 1 /\ pc = 1 /\ wh = TRUE /\ hist = <<>>
Step ==
  /\ r <= NRuns /\ pc <= Len(Prog(r))
  /\ LET o == Prog(r)[pc] IN
       CASE o.op = "creat" -> /\ exists' = [exists EXCEPT ![o.path] = TRUE] /\ content' = [content EXCEPT ![o.path] = <<>>] /\ wh' = wh
         [] o.op = "qwrite" -> /\ content' = [content EXCEPT !["qtmp"] = Append(@, Q)] /\ UNCHANGED <<exists, wh>>
         [] o.op = "rename" -> /\ exists' = [exists EXCEPT ![o.from] = FALSE, ![o.to] = TRUE]
                               /\ content' = [content EXCEPT ![o.to] = content[o.from], ![o.from] = <<>>] /\ wh' = wh
         [] o.op = "stat" -> /\ wh' = ~(exists["out"] /\ content["out"] # <<>>) /\ UNCHANGED <<exists, content>>   \* header only if absent or empty
         [] o.op = "nostat" -> /\ wh' = TRUE /\ UNCHANGED <<exists, content>>
         [] o.op = "openappend" -> /\ exists' = [exists EXCEPT !["out"] = TRUE] /\ UNCHANGED <<content, wh>>
         [] o.op = "hwrite" -> /\ content' = [content EXCEPT ![Target(r)] = IF wh THEN Append(@, o.tok) ELSE @] /\ UNCHANGED <<exists, wh>>
         [] o.op = "write" -> /\ content' = [content EXCEPT ![Target(r)] = Append(@, o.tok)] /\ UNCHANGED <<exists, wh>>
  /\ pc' = pc + 1 /\ UNCHANGED <<r, hist>>
\* with the deviation switched off an append run writes header and rows with one call (all or nothing)
AtomicAppend == /\ ~KF_TornHeaderAppend /\ r <= NRuns /\ Runs[r].append /\ pc <= Len(Prog(r)) /\ Prog(r)[pc].op = "hwrite" /\ Prog(r)[pc].tok = Header[1]
                /\ content' = [content EXCEPT !["out"] = @ \o (IF wh THEN Header ELSE <<>>) \o RowsOf(r, Runs[r].rows)]
                /\ pc' = Len(Prog(r)) + 1 /\ UNCHANGED <<exists, r, wh, hist>>
Finish == /\ r <= NRuns /\ pc > Len(Prog(r)) /\ r' = r + 1 /\ pc' = 1 /\ hist' = Append(hist, [run |-> r, kill |-> 0]) /\ UNCHANGED <<exists, content, wh>>
\* SIGKILL between two operations: the process is gone, the files stay as they are
Crash == /\ r <= NRuns /\ pc <= Len(Prog(r)) /\ r' = r + 1 /\ pc' = 1 /\ hist' = Append(hist, [run |-> r, kill |-> pc]) /\ UNCHANGED <<exists, content, wh>>
InAtomicRegion == ~KF_TornHeaderAppend /\ r <= NRuns /\ Runs[r].append /\ pc <= Len(Prog(r)) /\ Prog(r)[pc].op \in {"hwrite", "write"}
\* a write fails (disk full, quota, file size limit): WriteResult() returns the error at once; for the files this is the same
\* as dying at that step - in particular nothing is renamed into place afterwards
WriteError == /\ r <= NRuns /\ pc <= Len(Prog(r)) /\ Prog(r)[pc].op \in {"write", "hwrite", "qwrite"}
              /\ r' = r + 1 /\ pc' = 1 /\ hist' = Append(hist, [run |-> r, kill |-> 0 - pc]) /\ UNCHANGED <<exists, content, wh>>
Next == \/ (Step /\ ~(InAtomicRegion)) \/ AtomicAppend \/ Finish \/ Crash \/ WriteError \/ (r > NRuns /\ UNCHANGED vars)
Spec == Init /\ [][Next]_vars
viewNoHist == <<exists, content, r, pc, wh>>

\* ---- Ref
IsPrefix(a, b) == Len(a) <= Len(b) /\ SubSeq(b, 1, Len(a)) = a
\* without append: the outfile does not exist, or holds the complete result of a final run - never a partial file
NonAppendRuns == {j \in 1..NRuns : ~Runs[j].append}
NeverPartial == (\A j \in 1..NRuns : ~Runs[j].append) =>
                  (exists["out"] => \E j \in 1..NRuns : j <= r /\ Runs[j].final /\ content["out"] = Complete(j))
QueryBeside == (exists["out"] /\ \A j \in 1..NRuns : ~Runs[j].append) => (exists["q"] /\ content["q"] = <<Q>>)
\* with append: earlier content is never altered, and the header stands exactly once at the top
AppendOnly == [][(\A j \in 1..NRuns : Runs[j].append) => IsPrefix(content["out"], content'["out"])]_vars
HeaderOnceAtTop == (\A j \in 1..NRuns : Runs[j].append) =>
                     (content["out"] # <<>> => (Len(content["out"]) >= 4 /\ SubSeq(content["out"], 1, 4) = Header
                                                /\ \A k \in 5..Len(content["out"]) : content["out"][k][1] # 0))
\* between kills the header may be complete only partly while the writing run is still at it: judge at run boundaries
HeaderOnceAtRunEnd == pc = 1 => HeaderOnceAtTop
==============================================================================
