---- MODULE MC_Discovery ----
EXTENDS DiscoveryCases
MCPool == {"a", "b", "c", "a:22", ""}
MCFilters == {MCPool, {"a", "a:22"}, {"b", "c", ""}, {}}
====
