--------------------------------- MODULE Mux ---------------------------------
(* C07 - multi-source output is a whole-line interleaving with correct attribution.          *)
(* Code: server/handlers/readcommand.go readFiles() (one reader goroutine per file, all feeding   *)
(* the session's lines channel), basehandler.go Read() (one record per line, handed out in        *)
(* chunks of at most len(p) bytes, the rest kept for the next Read), clients/baseclient.go Start() *)
(* (one handler and receive buffer per connection), clients/handlers/basehandler.go Write(),       *)
(* dlog stdout logger (one mutex).                                                                *)
(* A record is a sequence of tokens <<file, line, k>>, k = 1..L-1, followed by its delimiter.     *)
EXTENDS Integers, Sequences, FiniteSets, TLC
CONSTANTS Conns,        \* connections (one server handler + one client handler each)
          FilesOf,      \* [Conns -> set of file ids], all distinct
          NLines, L,    \* lines per file, tokens per record (incl. delimiter)
          Bufs,         \* transport buffer sizes the copy loop may use
          QCap,
          KF_DropRest   \* deviation (repaired in the tree): Read() drops the part of a record that does not fit

AllFiles == UNION {FilesOf[c] : c \in Conns}
VARIABLES next, q, rb, cb, out, hist
vars == <<next, q, rb, cb, out, hist>>
Rec(f, n) == [k \in 1..L |-> IF k = L THEN <<f, n, 0>> ELSE <<f, n, k>>]   \* k = 0 marks the delimiter
Init == /\ next = [f \in AllFiles |-> 1] /\ q = [c \in Conns |-> <<>>] /\ rb = [c \in Conns |-> <<>>]
        /\ cb = [c \in Conns |-> <<>>] /\ out = <<>> /\ hist = <<>>
\* a reader goroutine puts its next line into the session's lines channel
Enqueue(c, f) == /\ f \in FilesOf[c] /\ next[f] <= NLines /\ Len(q[c]) < QCap
                 /\ q' = [q EXCEPT ![c] = Append(@, <<f, next[f]>>)] /\ next' = [next EXCEPT ![f] = @ + 1]
                 /\ UNCHANGED <<rb, cb, out, hist>>
\* client Write(): bytes are appended to the connection's buffer; a delimiter prints the buffer as ONE message
RECURSIVE Deliver(_, _, _)
Deliver(chunk, buf, printed) == IF chunk = <<>> THEN [buf |-> buf, printed |-> printed]
                                ELSE IF Head(chunk)[3] = 0 THEN Deliver(Tail(chunk), <<>>, Append(printed, buf))
                                ELSE Deliver(Tail(chunk), Append(buf, Head(chunk)), printed)
Min(a, b) == IF a < b THEN a ELSE b
\* one iteration of io.Copy(clientHandler, serverHandler) with a buffer of p bytes
Copy(c, p) == /\ (rb[c] # <<>> \/ q[c] # <<>>)
              /\ LET src == IF rb[c] # <<>> THEN rb[c] ELSE Rec(Head(q[c])[1], Head(q[c])[2])
                     n == Min(p, Len(src))
                     d == Deliver(SubSeq(src, 1, n), cb[c], <<>>)
                 IN /\ rb' = [rb EXCEPT ![c] = IF KF_DropRest THEN <<>> ELSE SubSeq(src, n + 1, Len(src))]
                    /\ q' = [q EXCEPT ![c] = IF rb[c] # <<>> THEN @ ELSE Tail(@)]
                    /\ cb' = [cb EXCEPT ![c] = d.buf] /\ out' = out \o d.printed
              /\ hist' = Append(hist, <<c, p>>) /\ UNCHANGED next
Next == (\E c \in Conns : \E f \in FilesOf[c] : Enqueue(c, f)) \/ (\E c \in Conns, p \in Bufs : Copy(c, p))
Spec == Init /\ [][Next]_vars
viewNoHist == <<next, q, rb, cb, out>>   \* the schedule history does not distinguish states

\* ---- Ref
Whole(r) == Len(r) = L - 1 /\ \A k \in 1..(L - 1) : r[k] = <<r[1][1], r[1][2], k>>
WholeRecords == \A i \in 1..Len(out) : Whole(out[i])
PerSourceOrder == \A i, j \in 1..Len(out) : (i < j /\ Whole(out[i]) /\ Whole(out[j]) /\ out[i][1][1] = out[j][1][1]) => out[i][1][2] < out[j][1][2]
Finished == (\A f \in AllFiles : next[f] > NLines) /\ (\A c \in Conns : q[c] = <<>> /\ rb[c] = <<>>)
AllDelivered == Finished => Len(out) = Cardinality(AllFiles) * NLines
===============================================================================
