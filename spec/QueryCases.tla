----------------------------- MODULE QueryCases -----------------------------
EXTENDS Query, Json, SequencesExt, FiniteSetsExt
\* (A) every derivation up to CaseClauses clauses, with its tokens, validity and denotation, for the replay harness
CONSTANT CaseClauses
Distinct(d) == \A i, j \in 1..Len(d) : i # j => OrderKind(d[i].kind) # OrderKind(d[j].kind)
Derivs == {d \in UNION {[1..n -> Alts] : n \in 0..CaseClauses} : Distinct(d)}
CaseOf(d) == [ids |-> [i \in 1..Len(d) |-> d[i].id], valid |-> Valid(d),
              clauses |-> [i \in 1..Len(d) |-> [kind |-> d[i].kind, kw |-> d[i].kw, args |-> d[i].args, den |-> d[i].den]],
              emptystr |-> HasEmptyString(d), lonebq |-> HasLoneBq(d)]
ASSUME ndJsonSerialize("c11_cases.ndjson", SetToSeq({CaseOf(d) : d \in Derivs}))
==============================================================================
