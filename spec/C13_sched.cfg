SPECIFICATION SSpec
CONSTANTS
  Reads <- MCReads3
  Cap = 1
  SessOf <- OwnSess
  Fails <- NoFails
  KF_CancelDrainsToken = FALSE
  MaxCancel = 2
INVARIANTS Emit NeverOverLimit TokensMatch
