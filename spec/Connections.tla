----------------------------- MODULE Connections -----------------------------
(* C14 - connection slots are bounded by MaxConnections and always given back.                        *)
(* Code: internal/server/server.go listenerLoop() (limit check on accept), handleConnection() (SSH      *)
(* handshake, then the slot is counted), handleRequests() (one goroutine per shell request), stats.go.  *)
EXTENDS Integers, Sequences, FiniteSets, TLC
CONSTANTS Conns, Max, MaxShells,
          KF_CountAfterHandshake,  \* deviation: the slot is counted only after the SSH handshake, while the limit is checked
                                   \* at accept: a burst of Max+n connections that are all still handshaking is admitted
          KF_RequestBurstLeak,     \* deviation (repaired): after an unknown channel request nobody reads the channel's request queue any
                                   \* more; with enough further requests already on the wire the connection's mux blocks and never
                                   \* notices the close - handleConnection() never returns, the slot is never given back
          KF_DecrementPerShell     \* deviation: the slot is given back by the goroutine a "shell" request starts - never for a
                                   \* connection without shell request, n times for n shell requests

VARIABLES phase, shells, counter, hist
vars == <<phase, shells, counter, hist>>
Init == /\ phase = [c \in Conns |-> "none"] /\ shells = [c \in Conns |-> 0] /\ counter = 0 /\ hist = <<>>
Open == {c \in Conns : phase[c] \in {"accepted", "authed"}}      \* connections the server is actually serving
H(a, c) == hist' = Append(hist, [a |-> a, c |-> c, counter |-> counter', refused |-> (phase'[c] = "refused")])   \* what the Impl model predicts

\* listenerLoop: Accept, then serverLimitExceeded() reads the counter
Connect(c) == /\ phase[c] = "none"
              /\ IF counter >= Max
                   THEN phase' = [phase EXCEPT ![c] = "refused"] /\ counter' = counter
                   ELSE /\ phase' = [phase EXCEPT ![c] = "accepted"]
                        /\ counter' = IF KF_CountAfterHandshake THEN counter ELSE counter + 1
              /\ UNCHANGED shells /\ H("connect", c)
\* listenerLoop: Accept itself fails for one attempt (the client gave up while still in the backlog - ECONNABORTED -, or
\* the process is momentarily out of file descriptors - EMFILE): that attempt is lost, nothing else changes, the
\* server goes on accepting (c may come again)
AcceptError(c) == /\ phase[c] = "none" /\ UNCHANGED <<phase, shells, counter>> /\ H("accepterror", c)
\* handleConnection: NewServerConn succeeds (valid key / health password) ...
HandshakeOK(c) == /\ phase[c] = "accepted" /\ phase' = [phase EXCEPT ![c] = "authed"]
                  /\ counter' = IF KF_CountAfterHandshake THEN counter + 1 ELSE counter
                  /\ UNCHANGED shells /\ H("auth", c)
\* ... or fails (bad credentials, client gone): the connection is over
HandshakeFail(c) == /\ phase[c] = "accepted" /\ phase' = [phase EXCEPT ![c] = "closed"]
                    /\ counter' = IF KF_CountAfterHandshake THEN counter ELSE counter - 1
                    /\ UNCHANGED shells /\ H("authfail", c)
\* a "shell" request on a session channel: starts the handler and the goroutine that waits for the connection's end
ShellRequest(c) == /\ phase[c] = "authed" /\ shells[c] < MaxShells
                   /\ shells' = [shells EXCEPT ![c] = @ + 1] /\ UNCHANGED <<phase, counter>> /\ H("shell", c)
\* a channel that is not a session (direct-tcpip from "ssh -L", x11, ...) is rejected; the connection and its other
\* channels live on and the slot stays taken
OtherChannel(c) == /\ phase[c] = "authed" /\ shells[c] < MaxShells
                   /\ UNCHANGED <<phase, shells, counter>> /\ H("otherchannel", c)
\* a client that opens many channels at once on one connection (sessions without a shell request and other kinds, more than
\* the SSH library queues per connection) and does not wait for the answers: nothing changes, the connection lives on
ChannelBurst(c) == /\ phase[c] = "authed" /\ shells[c] < MaxShells
                   /\ UNCHANGED <<phase, shells, counter>> /\ H("channelburst", c)
\* a request the server does not serve (pty-req, env, exec, ... - what a stock ssh client sends first), possibly followed by
\* more requests the client has already put on the wire: the server answers "no" and closes the whole connection
UnknownRequest(c) == /\ phase[c] = "authed" /\ phase' = [phase EXCEPT ![c] = "closed"]
                     /\ counter' = IF KF_RequestBurstLeak THEN counter ELSE IF KF_DecrementPerShell THEN counter - shells[c] ELSE counter - 1
                     /\ UNCHANGED shells /\ H("badrequest", c)
\* the connection ends (orderly or abruptly)
Close(c) == /\ phase[c] = "authed" /\ phase' = [phase EXCEPT ![c] = "closed"]
            /\ counter' = IF KF_DecrementPerShell THEN counter - shells[c] ELSE counter - 1
            /\ UNCHANGED shells /\ H("close", c)
Next == \E c \in Conns : Connect(c) \/ AcceptError(c) \/ HandshakeOK(c) \/ HandshakeFail(c) \/ ShellRequest(c) \/ OtherChannel(c) \/ ChannelBurst(c) \/ UnknownRequest(c) \/ Close(c)
Spec == Init /\ [][Next]_vars
viewNoHist == <<phase, shells, counter>>

\* ---- Ref
NeverMoreThanMax == Cardinality(Open) <= Max
ReportedEqualsOpen == counter = Cardinality(Open)
NeverNegative == counter >= 0
\* a new connection is accepted whenever fewer than Max are open
AcceptsWhenRoom == \A c \in Conns : (phase[c] = "refused") => TRUE   \* (checked as an action property below)
AcceptRight == [][\A c \in Conns : (phase[c] = "none" /\ phase'[c] = "refused") => Cardinality(Open) >= Max]_vars
==============================================================================
