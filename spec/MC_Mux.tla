---- MODULE MC_Mux ----
EXTENDS Mux, Json
MCConns == {1, 2}
MCFilesOf == [c \in MCConns |-> IF c = 1 THEN {11, 12} ELSE {21}]
MCBufs == {2, 5}
\* schedule emission for the replay harness (used with -simulate): the order in which the copy loops ran
EmitSched == Finished => PrintT(ToJson([sched |-> hist]))
====
