SPECIFICATION Spec
CONSTANTS
  Reads <- MCReads3
  Cap = 1
  SessOf <- OwnSess
  Fails <- NoFails
  KF_CancelDrainsToken = FALSE
INVARIANTS TypeOK NeverOverLimit TokensMatch
PROPERTIES EveryReadEnds NoSlotLeft
