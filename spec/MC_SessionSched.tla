---- MODULE MC_SessionSched ----
EXTENDS SessionSched
CmdsOne4 == <<<<4, 3, 3, 2>>>>
CmdsOne2 == <<<<3, 2>>>>
CmdsOne1 == <<<<5>>>>
CmdsTwo  == <<<<0>>, <<2>>>>
CmdsTwoB == <<<<2>>, <<1, 1>>>>
CmdsThree == <<<<1>>, <<2, 1>>, <<0>>>>
====
