SPECIFICATION Spec
CONSTANTS
 Conns <- MCConns
 FilesOf <- MCFilesOf
 NLines = 2
 L = 3
 Bufs <- MCBufs
 QCap = 2
 KF_DropRest = FALSE
INVARIANTS WholeRecords PerSourceOrder AllDelivered
VIEW viewNoHist
