--------------------------- MODULE DiscoveryCases ---------------------------
(* Case generator + record validator for C18 (bindings A and B).               *)
EXTENDS Discovery, Json, SequencesExt
\* (A) every input of the bounded alphabet with the Ref answer, written for the replay harness
Cases == {[input |-> l, match |-> M, wanted |-> Wanted(l, M)] : l \in Lists, M \in Filters}
ASSUME ndJsonSerialize("c18_cases.ndjson", SetToSeq(Cases))
\* (B) records produced by the real code on large random inputs: Ref is evaluated by TLC on each record
Records == ndJsonDeserialize("c18_records.ndjson")   \* [id, input: seq of int, match: seq of int (matching entries), output: seq of int]
RecOK(r) == IsExactlyOnce(r.output, r.input, SetOf(r.match))
Bad == {r.id : r \in {Records[i] : i \in 1..Len(Records)} \cap {x \in {Records[i] : i \in 1..Len(Records)} : ~RecOK(x)}}
ASSUME PrintT(<<"BADRECORDS", Bad>>)
\* end to end: addresses (ports) a real retrying client contacted; wanted = Ref address of every distinct entry
\* (an entry without port goes to the default port), round1 = contacts before the first reconnect, all = every contact
Contacts == ndJsonDeserialize("c18_contact.ndjson")
ContactOK(c) == /\ SetOf(c.round1) = SetOf(c.wanted) /\ \A p \in SetOf(c.wanted) : Count(c.round1, p) = 1
                /\ SetOf(c.all) = SetOf(c.wanted) /\ c.uninvited = 0
ASSUME PrintT(<<"BADCONTACTS", {i \in 1..Len(Contacts) : ~ContactOK(Contacts[i])}>>)
=============================================================================
