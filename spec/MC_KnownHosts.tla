---- MODULE MC_KnownHosts ----
EXTENDS KnownHostsCases
MCHosts == {"h1", "h2"}
====
