---- MODULE MC_Perm ----
EXTENDS PermCases
\* layout materialised by the harness (see harness/userserver/c08_test.go)
MCPaths == {"pub/a.log", "pub/secret1.log", "pub/link_a", "pub/link_out", "pub/dlink/key.txt", "pub/chain",
            "pub/fifo", "pub/sub", "pub/dangling", "pub/../priv/key.txt", "priv/key.txt", "pub/sub/deep.log", "pub/dlink"}
MCResolves == [p \in MCPaths |->
   CASE p = "pub/link_a" -> "pub/a.log"
     [] p \in {"pub/link_out", "pub/dlink/key.txt", "pub/chain", "pub/../priv/key.txt"} -> "priv/key.txt"
     [] p = "pub/dangling" -> "ERR"
     [] p = "pub/dlink" -> "priv"
     [] OTHER -> p]
MCKind == [p \in MCPaths \cup {"priv"} |->
   CASE p \in {"pub/a.log", "pub/secret1.log", "priv/key.txt", "pub/sub/deep.log"} -> "file"
     [] p \in {"pub/sub", "priv"} -> "dir"
     [] p = "pub/fifo" -> "fifo"
     [] OTHER -> "link"]
MCPatterns == {"all", "pub", "secret", "key", "alog"}
MCMatches == [q \in MCPatterns |->
   CASE q = "all" -> MCPaths \cup {"priv"}
     [] q = "pub" -> {"pub/a.log", "pub/secret1.log", "pub/fifo", "pub/sub", "pub/sub/deep.log"}
     [] q = "secret" -> {"pub/secret1.log"}
     [] q = "key" -> {"priv/key.txt"}
     [] q = "alog" -> {"pub/a.log"}]
MCColon == {"secret"}
====
