------------------------------ MODULE KnownHosts ------------------------------
(* C17 - the client talks only to servers whose host key is trusted.                                  *)
(* Code: internal/ssh/client/knownhostscallback.go Wrap() (knownhosts check, then the unknown host is   *)
(* queued and the dialling goroutine waits for the user's answer), PromptAddHosts() (batched prompt),    *)
(* promptAddHosts() (answers yes / all / no / details), trustHosts() (rewrite via known_hosts.tmp:       *)
(* new entries first, then every old line whose first field is not one of the replaced addresses),       *)
(* connectors/serverconnection.go (commands are sent only after a successful dial).                      *)
EXTENDS Integers, Sequences, FiniteSets, TLC
CONSTANTS Hosts,          \* the servers the client contacts
          MaxLines        \* length of the known-hosts file
\* kinds of known-hosts lines; <<kind, host>>; host "-" where it does not matter
LineKinds == {<<"same", h>> : h \in Hosts} \cup {<<"other", h>> : h \in Hosts}      \* plain entry with the server's key / with another key
          \cup {<<"hashed", h>> : h \in Hosts} \cup {<<"multi", h>> : h \in Hosts}  \* hashed entry / entry shared with a foreign host (server's key)
          \cup {<<"foreign", "-">>, <<"ca", "-">>, <<"cmt", "-">>, <<"blank", "-">>}
Files == UNION {[1..n -> LineKinds] : n \in 0..MaxLines}
Answers == {"y", "n", "a", "dy", "dn"}      \* yes, no, all, details-then-yes, details-then-no
\* Anything else typed at the prompt (the empty line, blanks, abbreviations such as "ye", other spellings such as "YES",
\* sentences containing an answer) is not an answer: the question is asked again and nothing is decided.  The harness
\* types one to three such lines before the answer of the case.
NonAnswers == {"empty", "blank", "abbreviation", "uppercase", "sentence", "garbage"}

VARIABLES file, trustAll, answer, phase, batch, asked, cancelled, commands
vars == <<file, trustAll, answer, phase, batch, asked, cancelled, commands>>

\* golang.org/x/crypto/ssh/knownhosts: the FIRST line that matches the host (per key type) decides
Matching(f, h) == {i \in 1..Len(f) : f[i] \in {<<"same", h>>, <<"other", h>>, <<"hashed", h>>, <<"multi", h>>, <<"new", h>>}}
Known(f, h) == Matching(f, h) # {} /\ f[CHOOSE i \in Matching(f, h) : \A j \in Matching(f, h) : i <= j][1] # "other"
Init == /\ file \in Files /\ trustAll \in BOOLEAN /\ answer \in Answers
        /\ phase = [h \in Hosts |-> "idle"] /\ batch = <<>> /\ asked = FALSE /\ cancelled = FALSE /\ commands = {}
\* ssh.Dial -> host key callback: known with this key -> fine; otherwise queue for the prompt and wait
Dial(h) == /\ phase[h] = "idle" /\ ~cancelled
           /\ IF Known(file, h) THEN phase' = [phase EXCEPT ![h] = "proceeded"] /\ batch' = batch
              ELSE phase' = [phase EXCEPT ![h] = "pending"] /\ batch' = Append(batch, h)
           /\ UNCHANGED <<file, trustAll, answer, asked, cancelled, commands>>
Approved == trustAll \/ answer \in {"y", "a", "dy"}
\* trustHosts(): new entries first, then all old lines which are not the plain entry of a replaced address
Replaced(l, B) == l[1] \in {"same", "other", "new"} /\ l[2] \in B
Rewrite(f, b) == [i \in 1..Len(b) |-> <<"new", b[i]>>] \o SelectSeq(f, LAMBDA l : ~Replaced(l, {b[i] : i \in 1..Len(b)}))
\* the batched prompt (after 2 s without new unknown hosts, or 50 hosts) and the user's answer
Prompt == /\ batch # <<>> /\ ~cancelled
          /\ asked' = TRUE
          /\ IF Approved
               THEN /\ file' = Rewrite(file, batch)
                    /\ phase' = [h \in Hosts |-> IF \E i \in 1..Len(batch) : batch[i] = h THEN "proceeded" ELSE phase[h]]
               ELSE /\ file' = file
                    /\ phase' = [h \in Hosts |-> IF \E i \in 1..Len(batch) : batch[i] = h THEN "refused" ELSE phase[h]]
          /\ batch' = <<>> /\ trustAll' = (trustAll \/ answer = "a")
          /\ UNCHANGED <<answer, cancelled, commands>>
\* the client is interrupted while hosts are waiting for the prompt: nobody approved them
Cancel == /\ ~cancelled /\ cancelled' = TRUE /\ UNCHANGED <<file, trustAll, answer, phase, batch, asked, commands>>
\* serverconnection.go: commands are sent once the dial succeeded
SendCommands(h) == /\ phase[h] = "proceeded" /\ h \notin commands /\ commands' = commands \cup {h}
                   /\ UNCHANGED <<file, trustAll, answer, phase, batch, asked, cancelled>>
Next == (\E h \in Hosts : Dial(h) \/ SendCommands(h)) \/ Prompt \/ Cancel \/ UNCHANGED vars
Spec == Init /\ [][Next]_vars

\* ---- Ref
OnlyTrusted == \A h \in Hosts : phase[h] = "proceeded" => (Known(file, h) \/ <<"new", h>> \in {file[i] : i \in 1..Len(file)} \/ trustAll)
RefusedGetNothing == \A h \in Hosts : phase[h] \in {"refused", "pending"} => h \notin commands
\* recording newly trusted hosts adds their entries and leaves every unrelated line intact and in order
RewriteRight == [][(file' # file) =>
                    /\ \A i \in 1..Len(batch) : <<"new", batch[i]>> \in {file'[k] : k \in 1..Len(file')}
                    /\ SubSeq(file', Len(batch) + 1, Len(file')) =
                         SelectSeq(file, LAMBDA l : ~(l[1] \in {"same", "other", "new"} /\ \E i \in 1..Len(batch) : batch[i] = l[2]))]_vars
===============================================================================
