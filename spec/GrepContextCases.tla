------------------------- MODULE GrepContextCases -------------------------
EXTENDS GrepContext, Json, SequencesExt, FiniteSetsExt
Sort(S) == SetToSortSeq(S, <)
\* (A) every case of the bounded alphabet with the Ref answer (sorted line numbers)
Cases == {[file |-> f, kind |-> k, b |-> b, a |-> a, m |-> m, exp |-> Sort(RefOut(f, k, b, a, m))] :
            f \in Files, k \in Kinds, b \in P, a \in P, m \in P}
ASSUME ndJsonSerialize("c03_cases.ndjson", SetToSeq(Cases))
\* (B) records from the real reader on large random files: [id, file (seq of 0/1), kind, b, a, m, out (line numbers)]
Records == ndJsonDeserialize("c03_records.ndjson")
AsBool(q) == [x \in 1..Len(q) |-> q[x] = 1]
RecOK(r) == r.out = Sort(RefOut(AsBool(r.file), r.kind, r.b, r.a, r.m))
ASSUME PrintT(<<"BADRECORDS", {Records[x].id : x \in {y \in 1..Len(Records) : ~RecOK(Records[y])}}>>)
=============================================================================
