------------------------------ MODULE ClientMsg ------------------------------
(* C16 - no message content can crash the client; colouring never alters text.             *)
(* Code: internal/clients/handlers basehandler.go handleMessage(), maprhandler.go Write(),    *)
(* healthhandler.go; internal/io/dlog Raw(); internal/color/brush/brush.go Colorfy() /          *)
(* paintRemote() / paintClient() / paintServer(); internal/color/paint.go.                      *)
(* A message is a prefix plus further '|'-separated fields; text is a sequence of symbols.      *)
EXTENDS Integers, Sequences, FiniteSets, TLC
CONSTANTS MsgPrefixes, MaxFields, LastFields,
          KF_ShortRecordColour,  \* named deviation: a REMOTE/CLIENT/SERVER message with fewer fields than the painter indexes panics
          KF_MaprEmptyMessage    \* named deviation: MaprHandler.Write indexes message[0] of an empty message

Handlers == {"client", "mapr", "health"}
VARIABLES prefix, nfields, last, nl, handler, colour
vars == <<prefix, nfields, last, nl, handler, colour>>
Init == /\ prefix \in MsgPrefixes /\ nfields \in 1..MaxFields /\ last \in LastFields /\ nl \in BOOLEAN
        /\ handler \in Handlers /\ colour \in BOOLEAN
Next == UNCHANGED vars
Spec == Init /\ [][Next]_vars

\* the message text as symbols: "c" content, "|" field delimiter, "CR", "NL"
IsEmpty == prefix = "" /\ nfields = 1 /\ last = "" /\ ~nl
\* first byte '.': never printed.  ".syn" stands for the close message ".syn close connection"; ".syn1", ".syn2", ".synb" for
\* messages that begin like it but have fewer words (".syn", ".syn close", ".syn" followed by blanks)
Hidden == prefix \in {".", ".syn", ".syn1", ".syn2", ".synb"}
NeededFields(p) == CASE p = "REMOTE" -> 6 [] p \in {"CLIENT", "SERVER"} -> 3 [] OTHER -> 1
\* ---- Impl: where the code indexes
MaprFirstByteCrash == handler = "mapr" /\ IsEmpty /\ KF_MaprEmptyMessage
Printed == CASE handler = "health" -> FALSE                      \* the health handler only looks for "OK"
             [] handler = "mapr" -> ~IsEmpty /\ prefix \notin {"AGGREGATE", "A"} /\ ~Hidden
             [] OTHER -> ~Hidden
ColourCrash == Printed /\ colour /\ KF_ShortRecordColour /\ nfields < NeededFields(prefix)
Crashed == MaprFirstByteCrash \/ ColourCrash
\* Paint*(): colour codes, text without its trailing newline, reset codes, then the newline again
Sym(f) == CASE f = "" -> <<>> [] f = "crlf" -> <<"c", "CR">> [] OTHER -> <<"c">>
Text == <<"p">> \o [i \in 1..(nfields - 1) |-> "|"] \o Sym(last) \o (IF nl THEN <<"NL">> ELSE <<>>)
TrimNL(t) == IF t # <<>> /\ t[Len(t)] = "NL" THEN SubSeq(t, 1, Len(t) - 1) ELSE t
Paint(t) == <<"ESC">> \o TrimNL(t) \o <<"ESC">> \o (IF TrimNL(t) # t THEN <<"NL">> ELSE <<>>)
Strip(t) == SelectSeq(t, LAMBDA x : x # "ESC")

\* ---- the payload of an AGGREGATE message (mapr/client/aggregate.go Aggregate(), makeFields()): group key, sample
\* count, then fields "name<kv>value", all joined by the aggregate delimiter, normally with a trailing delimiter.  A
\* value taken from a log line may itself contain either delimiter, so every part shape must be survivable.
AggSamples == {"num", "bad", ""}
AggParts   == {"kv", "bare", "empty", "kvkv"}       \* name<kv>value | no kv delimiter | empty | two kv delimiters
SeqUpTo(S, n) == UNION {[1..k -> S] : k \in 0..n}
AggShapes(n) == {[samples |-> sm, parts |-> ps, trail |-> tr] : sm \in AggSamples, ps \in SeqUpTo(AggParts, n), tr \in BOOLEAN}
\* Ref: the count of a well-formed field is taken over iff the record has a numeric sample count and >= 4 parts
AggNParts(a) == 2 + Len(a.parts) + (IF a.trail THEN 1 ELSE 0)
AggAccepted(a) == AggNParts(a) >= 4 /\ a.samples = "num"
AggCounted(a) == AggAccepted(a) /\ \E i \in 1..Len(a.parts) : a.parts[i] \in {"kv", "kvkv"}
\* ---- Ref
NeverCrashes == ~Crashed
Lossless == Strip(Paint(Text)) = Text
OnlyKnownCrashes == Crashed => ((handler = "mapr" /\ IsEmpty) \/ (colour /\ nfields < NeededFields(prefix)))
==============================================================================
