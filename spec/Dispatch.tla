------------------------------ MODULE Dispatch ------------------------------
(* C10 - no client-supplied bytes can crash the server.                                   *)
(* Code: internal/server/handlers basehandler.go Write()/handleCommand()/                     *)
(* handleProtocolVersion()/handleBase64()/handleAckCommand(), serverhandler.go               *)
(* handleUserCommand(), readcommand.go Start(), mapcommand.go, mapr/server NewAggregate(),    *)
(* config/args.go DeserializeOptions(), regex.Deserialize(), fs filterWithLContext().         *)
(* A command is abstracted to classes; Go's slices are modelled with their length, an index    *)
(* beyond it is the state Crashed (an unrecovered panic kills the whole multi-user server).    *)
EXTENDS Integers, Sequences, FiniteSets, TLC
CONSTANTS KF_ReadTooFewArgs,   \* 'cat' / 'grep' / 'tail' without arguments index args[1] / slice args[2:] of a 1-element slice
          KF_MapEmptyQuery,    \* 'map' without query: NewQuery("") returns nil, nil and NewAggregate dereferences it
          KF_AckTooFewArgs,    \* '.ack' with fewer than two further words indexes args[1], args[2] (argc is the STRING length)
          KF_HugeBefore        \* 'before=<huge>' makes filterWithLContext() allocate a channel of that capacity (makechan panic)

Envelopes == {"ok", "oldversion", "newerversion", "noprotocol", "toofewwords", "nobase64word", "badbase64", "empty"}
Words == {"cat", "grep", "tail", "map", ".ack", "health", "unknown", ""}
Opts == {"none", "empty", "valid", "context", "noeq", "nonint", "b64good", "b64bad", "b64bare", "negbefore", "hugebefore"}   \* b64bare: the value is the marker "base64" alone
Regexes == {"none", "default", "invert", "noop", "wrongprefix", "uncompilable", "noflag", "bogusflag",
            "flaglist_in", "flaglist_dn", "flaglist_ni", "flaglist_bdn"}   \* flag lists: invert,noop / default,noop / noop,invert / bogus,default,noop
Queries == {"valid", "empty", "blank", "lonebackquote", "unknownkeyword", "truncated", "badlogformat", "unknownagg",
            "orderkeyword1", "orderkeyword2", "orderkeyword3", "clausekeyword",   \* a clause keyword directly followed by another keyword
            "danglingwhere"}   \* a complete where condition followed by an incomplete one (one or two stray tokens)
\* queries the parser accepts whose numbers sit on a boundary (they reach timers, limits and slices in the aggregator)
BoundaryQueries == {"quotedbackquote", "quotedkeyword", "interval0", "intervalneg", "intervalhuge", "limit0", "limitneg", "rorderlimit1", "setclause", "manyselect"}
Files == {"existing", "missing", "directory", "emptyglob"}
\* spellings of the file argument: wildcards in the last / in a directory component, non-canonical paths (the glob is
\* cleaned for matching, identifiers are derived by pairing glob and path components), a directory with a trailing slash
PathSpellings == {"glob", "globdir", "dslashglob", "dotglob", "dotdotglob", "dslashfile", "trailslash", "dslashglobdir", "longmissing"}

ReadWords == {"cat", "grep", "tail"}
\* the commands of the abstract alphabet (dependent fields only vary where the code looks at them)
Cmds == {[env |-> e, word |-> "cat", opts |-> "none", nargs |-> 4, regex |-> "default", query |-> "valid", file |-> "existing"] : e \in Envelopes \ {"ok"}}
   \cup {[env |-> "ok", word |-> w, opts |-> o, nargs |-> n, regex |-> IF n >= 3 THEN r ELSE "none", query |-> "valid", file |-> f] :
           w \in ReadWords, o \in Opts, n \in 1..4, r \in Regexes \ {"none"}, f \in Files}
   \cup {[env |-> "ok", word |-> "map", opts |-> o, nargs |-> IF q \in {"empty"} THEN 1 ELSE 2, regex |-> "none", query |-> q, file |-> "existing"] :
           o \in {"none", "valid", "noeq"}, q \in Queries \cup BoundaryQueries}
   \cup {[env |-> "ok", word |-> w, opts |-> o, nargs |-> 4, regex |-> r, query |-> "valid", file |-> f] :
           w \in ReadWords, o \in {"none", "valid", "context"}, r \in {"default", "noop"}, f \in PathSpellings}
   \cup {[env |-> "ok", word |-> w, opts |-> o, nargs |-> n, regex |-> "none", query |-> "valid", file |-> "existing"] :
           w \in {".ack", "health", "unknown", ""}, o \in {"none", "valid", "noeq"}, n \in 1..4}

\* ---- Impl
\* handleProtocolVersion / handleBase64: errors are answered with a server message, nothing is indexed beyond a checked length
EnvelopeError(c) == c.env # "ok"
\* DeserializeOptions: error -> message, command not run
OptionError(c) == c.opts \in {"noeq", "nonint", "b64bad"}      \* (b64bare: "base64" without '%' is an ordinary value; max=base64 is a non-integer)
\* argc = len(decodedStr): the length of the payload STRING, at least the length of the command word
Argc(c) == IF c.nargs = 1 THEN (IF c.word = "" THEN 0 ELSE IF c.word = "cat" THEN 3 ELSE 4) ELSE 12   \* any payload with a blank is longer than 4
LenArgs(c) == c.nargs
ReadCrash(c) == /\ c.word \in ReadWords
                /\ \/ (KF_ReadTooFewArgs /\ Argc(c) >= 4 /\ LenArgs(c) < 2)          \* args[2:] of a one-element slice
                   \/ (KF_ReadTooFewArgs /\ Argc(c) >= 3 /\ LenArgs(c) < 2)          \* args[1]
                   \/ (KF_HugeBefore /\ c.opts = "hugebefore" /\ LenArgs(c) >= 2 /\ c.file = "existing"
                         /\ c.regex \notin {"wrongprefix", "uncompilable"})            \* make(chan, before) in the filter goroutine
MapCrash(c) == c.word = "map" /\ KF_MapEmptyQuery /\ c.query \in {"empty", "blank"}
AckCrash(c) == c.word = ".ack" /\ KF_AckTooFewArgs /\ Argc(c) >= 3 /\ LenArgs(c) < 3
Crashed(c) == ~EnvelopeError(c) /\ ~OptionError(c) /\ (ReadCrash(c) \/ MapCrash(c) \/ AckCrash(c))
\* what the offending session gets instead: an error/warning message, or it simply runs (and is closed at the end)
Answer(c) == CASE EnvelopeError(c) -> "error"
               [] OptionError(c) -> "error"
               [] c.word \in {"unknown", "", "health"} -> "error"
               [] c.word \in ReadWords /\ LenArgs(c) < 2 -> "error"
               [] c.word \in ReadWords /\ c.regex \in {"wrongprefix", "uncompilable"} -> "error"
               [] c.word = "map" /\ c.query \notin ({"valid"} \cup BoundaryQueries) -> "error"
               [] OTHER -> "runs"

VARIABLES cmd
vars == <<cmd>>
Init == cmd \in Cmds
Next == UNCHANGED vars
Spec == Init /\ [][Next]_vars
\* ---- Ref
NeverCrashes == ~Crashed(cmd)
==============================================================================
