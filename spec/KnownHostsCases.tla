---------------------------- MODULE KnownHostsCases ----------------------------
EXTENDS KnownHosts, Json, SequencesExt
\* (A) every (file, trust-all, answer) with, per contacted host, whether the client may proceed, and the file after the rewrite
AllHosts == SetToSeq(Hosts)
Pending(f) == SelectSeq(AllHosts, LAMBDA h : ~Known(f, h))
CaseOf(f, ta, a) == LET app == ta \/ a \in {"y", "a", "dy"} IN
  [file |-> f, trustall |-> ta, answer |-> a,
   proceed |-> {h \in Hosts : Known(f, h) \/ app},
   after |-> IF app /\ Pending(f) # <<>> THEN Rewrite(f, Pending(f)) ELSE f,
   \* the same hosts put before the user in two batches, one after the other, in one client session (a host that shows up
   \* more than 2 s after the first): two Prompt steps, the second rewrite starts from what the first one left
   after2 |-> IF app /\ Len(Pending(f)) = 2 THEN Rewrite(Rewrite(f, <<Pending(f)[1]>>), <<Pending(f)[2]>>)
              ELSE IF app /\ Pending(f) # <<>> THEN Rewrite(f, Pending(f)) ELSE f]
ASSUME ndJsonSerialize("c17_cases.ndjson", SetToSeq({CaseOf(f, ta, a) : f \in Files, ta \in BOOLEAN, a \in Answers}))
================================================================================
