-------------------------------- MODULE Query --------------------------------
(* C11 - valid queries parse to the structure they denote; invalid ones are rejected.      *)
(* Code: internal/mapr/token.go tokenize()/tokensConsume(), internal/mapr/query.go           *)
(* parseTokens()/parse(), selectcondition.go, wherecondition.go, setcondition.go.            *)
(* Ref side: the documented grammar (doc/querylanguage.md) as a generator WITH denotations:   *)
(* a query is a sequence of clause alternatives (any order, each clause kind at most once);   *)
(* every alternative carries its tokens and what it denotes.                                  *)
(* Impl side: the token-level part of the parser transcribed - how clause boundaries are      *)
(* found (keyword barewords), how tokensConsume() treats empty and back-quoted tokens.        *)
(* The per-clause builders are bound by replay: every derivation is rendered and parsed by    *)
(* the real mapr.NewQuery and compared field by field with the denotation.                     *)
EXTENDS Integers, Sequences, FiniteSets, TLC
CONSTANTS Alts,          \* clause alternatives: [id, kind, kw (keyword tokens), args (tokens), den (what it denotes, as JSON text for the
                         \* replay harness), storages (select: the selected columns), ofield (order: the column), valid]
          MaxClauses,
          KF_EmptyStringDropped,   \* named deviation: tokensConsume() skips a token of length 0, i.e. the string literal ""
          KF_LoneBackquote         \* named deviation: a token consisting of one back-quote makes tokensConsume() slice [1:0] (panic)

\* token = [s |-> text, bare |-> not quoted, form |-> "plain" | "bq" (back-quoted, s is the inner text) | "lonebq"]
Kinds == {"select", "from", "where", "set", "group", "order", "rorder", "interval", "limit", "outfile", "logformat"}
KeywordSpellings == Kinds
IsKw(t) == t.bare /\ t.form = "plain" /\ t.s \in KeywordSpellings

VARIABLES deriv
vars == <<deriv>>
KindsOf(d) == {d[i].kind : i \in 1..Len(d)}
OrderKind(k) == IF k = "rorder" THEN "order" ELSE k           \* order and rorder set the same field
Init == deriv = <<>>
Add(a) == /\ Len(deriv) < MaxClauses
          /\ OrderKind(a.kind) \notin {OrderKind(k) : k \in KindsOf(deriv)}
          /\ deriv' = Append(deriv, a)
Next == \E a \in Alts : Add(a)
Spec == Init /\ [][Next]_vars

\* ---- Ref: tokens and denotation of a derivation
RECURSIVE Flat(_)
Flat(ss) == IF ss = <<>> THEN <<>> ELSE Head(ss) \o Flat(Tail(ss))
KwTok(w) == [s |-> w, bare |-> TRUE, form |-> "plain"]
Tokens(d) == Flat([i \in 1..Len(d) |-> [j \in 1..Len(d[i].kw) |-> KwTok(d[i].kw[j])] \o d[i].args])
ClauseOf(d, k) == IF \E i \in 1..Len(d) : d[i].kind = k THEN d[CHOOSE i \in 1..Len(d) : d[i].kind = k] ELSE [kind |-> "none"]
HasK(d, k) == \E i \in 1..Len(d) : d[i].kind = k
SelectStorages(d) == IF HasK(d, "select") THEN ClauseOf(d, "select").storages ELSE {}
OrderField(d) == IF HasK(d, "order") THEN ClauseOf(d, "order").ofield ELSE IF HasK(d, "rorder") THEN ClauseOf(d, "rorder").ofield ELSE ""
\* a derivation denotes a valid query iff every alternative is well-formed, there is a select clause with at least one
\* item and an order field is one of the selected columns
Valid(d) == /\ \A i \in 1..Len(d) : d[i].valid
            /\ HasK(d, "select") /\ SelectStorages(d) # {}
            /\ (OrderField(d) # "" => OrderField(d) \in SelectStorages(d))

\* ---- Impl: token-level transcription of parseTokens()/tokensConsume()
\* tokensConsume(tokens): collect until the next keyword bareword
RECURSIVE Consume(_, _)
Consume(toks, acc) ==      \* [rest, found, crash]
  IF toks = <<>> THEN [rest |-> <<>>, found |-> acc, crash |-> FALSE]
  ELSE LET t == Head(toks) IN
       IF IsKw(t) THEN [rest |-> toks, found |-> acc, crash |-> FALSE]
       ELSE IF t.form = "plain" /\ t.s = "" THEN
              (IF KF_EmptyStringDropped THEN Consume(Tail(toks), acc) ELSE Consume(Tail(toks), Append(acc, t)))
       ELSE IF t.form = "lonebq" THEN
              (IF KF_LoneBackquote THEN [rest |-> <<>>, found |-> acc, crash |-> TRUE] ELSE Consume(Tail(toks), Append(acc, t)))
       ELSE Consume(Tail(toks), Append(acc, t))          \* back-quoted tokens are stripped and never keywords
SkipBy(toks) == IF toks # <<>> /\ Head(toks).s = "by" THEN Tail(toks) ELSE toks      \* tokensConsumeOptional(tokens, "by")
RECURSIVE ParseClauses(_, _)
ParseClauses(toks, acc) ==   \* [clauses, err, crash]
  IF toks = <<>> THEN [clauses |-> acc, err |-> FALSE, crash |-> FALSE]
  ELSE LET h == Head(toks) IN
       IF h.s \notin Kinds THEN [clauses |-> acc, err |-> TRUE, crash |-> FALSE]               \* "Unexpected keyword"
       ELSE LET body == IF h.s \in {"group", "order", "rorder"} THEN SkipBy(Tail(toks)) ELSE Tail(toks)
                c == Consume(body, <<>>)
            IN IF c.crash THEN [clauses |-> acc, err |-> FALSE, crash |-> TRUE]
               ELSE ParseClauses(c.rest, Append(acc, [kind |-> h.s, args |-> c.found]))
ImplClauses(d) == ParseClauses(Tokens(d), <<>>)
RefClauses(d) == [i \in 1..Len(d) |-> [kind |-> d[i].kind, args |-> d[i].args]]

\* triggers of the named deviations
HasEmptyString(d) == \E i \in 1..Len(d) : \E j \in 1..Len(d[i].args) : d[i].args[j].form = "plain" /\ d[i].args[j].s = ""
HasLoneBq(d) == \E i \in 1..Len(d) : \E j \in 1..Len(d[i].args) : d[i].args[j].form = "lonebq"
NeverCrashes == ~ImplClauses(deriv).crash
\* for every derivation whose alternatives are well-formed the parser finds exactly the generated clause structure
ClauseStructureRight == ((\A i \in 1..Len(deriv) : deriv[i].valid) /\ ~(KF_EmptyStringDropped /\ HasEmptyString(deriv)) /\ ~(KF_LoneBackquote /\ HasLoneBq(deriv)))
                          => (ImplClauses(deriv).clauses = RefClauses(deriv) /\ ~ImplClauses(deriv).err)
==============================================================================
