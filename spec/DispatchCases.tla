--------------------------- MODULE DispatchCases ---------------------------
EXTENDS Dispatch, Json, SequencesExt
ASSUME ndJsonSerialize("c10_cases.ndjson", SetToSeq({[cmd |-> c, crash |-> Crashed(c), answer |-> Answer(c)] : c \in Cmds}))
=============================================================================
