------------------------------ MODULE WireCases ------------------------------
EXTENDS Wire, Json, SequencesExt
\* (A) every file of the bounded alphabet x M x P x mode, with the Ref output and the output the Impl model predicts
CONSTANT CaseLen
CaseFiles == UNION {[1..k -> Sigma] : k \in 0..CaseLen}
Cases == {[f |-> ff, m |-> mm, p |-> pp, plain |-> pl, exp |-> ExpMode(ff, mm, pl), impl |-> Out(ff, mm, pp, pl),
           hasd |-> HasD(ff), dot |-> (KF_LeadingDotPlain /\ pl /\ LeadingDot(ff, mm)), toolong |-> TooLong(ff, mm, pp, pl)] :
            ff \in CaseFiles, mm \in Ms, pp \in Ps, pl \in BOOLEAN}
ASSUME ndJsonSerialize("c01_cases.ndjson", SetToSeq(Cases))
==============================================================================
