--------------------------- MODULE LimiterTrace ---------------------------
(* Trace validation for C13: traces recorded from the real read() through internal/vhook are   *)
(* checked against the actions of Limiter.  Channel operations (the send that acquires, the     *)
(* receive that releases) cannot be logged atomically with their effect, so they are silent     *)
(* steps taken between the logged events (begin/end logging).  One TLC run validates all traces *)
(* of one configuration: the initial state chooses the trace.                                   *)
EXTENDS Limiter, Json
Traces == ndJsonDeserialize("c13_traces.ndjson")   \* each line: [id |-> n, ev |-> << [ev |-> "enter", id |-> r, took |-> 0], ... >>]

VARIABLES t, l, took, ok
tvars == <<vars, t, l, took, ok>>
Tr == Traces[t].ev
Ev == Tr[l]
RefOK == NeverOverLimit /\ TokensMatch

TInit == Init /\ t \in DOMAIN Traces /\ l = 1 /\ took = [r \in Reads |-> -1] /\ ok = TRUE
Keep == t' = t /\ ok' = (ok /\ RefOK')
IsEv(name) == l <= Len(Tr) /\ Ev.ev = name /\ l' = l + 1

\* silent steps: the channel operations
SilentAcq(r) == (FastAcq(r) \/ SlowAcq(r)) /\ UNCHANGED <<l, took>>
SilentRel(r) == Release(r) /\ took' = [took EXCEPT ![r] = IF tokens > 0 THEN 1 ELSE 0] /\ UNCHANGED l

TEnter     == IsEv("enter") /\ Enter(Ev.id) /\ UNCHANGED took
TAcquired  == IsEv("acquired") /\ Acquired(Ev.id) /\ UNCHANGED took
\* the default branch was chosen when the channel was full and ctx not done; by the time the event is logged
\* that may no longer be true, so the guard is not re-checked here
TWait      == IsEv("wait") /\ pc[Ev.id] = "entering" /\ Set(Ev.id, "waiting") /\ UNCHANGED <<tokens, cancelled, took>>
TCancel    == IsEv("cancel") /\ Cancel(Ev.id) /\ UNCHANGED took
TCancelled == IsEv("cancelled") /\ (CancelEnter(Ev.id) \/ CancelWait(Ev.id)) /\ UNCHANGED took
TRelBegin  == IsEv("relbegin") /\ UNCHANGED took /\
                \/ pc[Ev.id] \in {"holding", "retrying"} /\ Set(Ev.id, "relbegin") /\ UNCHANGED <<tokens, cancelled>>   \* Finish, AbortHolding or AbortRetry
                \/ KF_CancelDrainsToken /\ CancelledExit(Ev.id)
TRelEnd    == IsEv("relend") /\ pc[Ev.id] = "done" /\ took[Ev.id] = Ev.took /\ UNCHANGED <<vars, took>>
\* the harness removed the followed file and saw the reader close it
TRotate    == IsEv("rotate") /\ Rotate(Ev.id) /\ UNCHANGED took
TExit      == IsEv("exit") /\ UNCHANGED took /\
                \/ pc[Ev.id] = "done" /\ UNCHANGED vars
                \/ ~KF_CancelDrainsToken /\ CancelledExit(Ev.id)

TNext == /\ \/ TEnter \/ TAcquired \/ TWait \/ TCancel \/ TCancelled \/ TRelBegin \/ TRelEnd \/ TRotate \/ TExit
            \/ \E r \in Reads : SilentAcq(r) \/ SilentRel(r)
         /\ Keep
TSpec == TInit /\ [][TNext]_tvars

\* acceptance is reported per trace (the driver collects the printed lines)
Report == (l = Len(Tr) + 1) => PrintT(<<"ACCEPTED", Traces[t].id, ok>>)
===========================================================================
