---- MODULE MC_LimiterSched ----
EXTENDS LimiterSched
MCReads2 == {1, 2}
MCReads3 == {1, 2, 3}
MCReads4 == {1, 2, 3, 4}
OwnSess  == [r \in MCReads4 |-> r]
PairSess == [r \in MCReads4 |-> IF r <= 2 THEN 1 ELSE r]
NoFails == {}
Fail2 == {2}
Fail23 == {2, 3}
====
